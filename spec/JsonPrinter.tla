----------------------------- MODULE JsonPrinter -----------------------------
(***************************************************************************)
(* The printer, written from the rustdoc of `print::Options` and `Limit`    *)
(* and from property C13/C08 - not from the two-pass implementation:        *)
(*                                                                          *)
(*  - a container is printed on ONE LINE iff all of its children are and    *)
(*    its one-line form respects the configured limit, where the width is   *)
(*    the number of characters actually printed (an empty container prints  *)
(*    its dedicated `*_empty` spacing);                                     *)
(*  - otherwise every child goes on its own line, indented by (depth+1)     *)
(*    indent units, commas preceded by `*_before_comma` spaces, and the     *)
(*    closing bracket on its own line at depth indent units;                *)
(*  - strings are escaped as RFC 8785 section 3.2.2.2 prescribes; numbers   *)
(*    are printed verbatim.                                                 *)
(*                                                                          *)
(* Options are records; a limit is a tuple <<"none">>, <<"always">>,        *)
(* <<"item", i>>, <<"width", w>> or <<"iow", i, w>>; an indent unit is      *)
(* <<"spaces", n>> or <<"tabs", n>>.                                        *)
(***************************************************************************)
EXTENDS Integers, Sequences, Chars, JsonValue

Pretty == [indent |-> <<"spaces", 2>>,
           ab |-> 1, ae |-> 1, aem |-> 0, abc |-> 0, aac |-> 1, alim |-> <<"iow", 1, 16>>,
           ob |-> 1, oe |-> 1, oem |-> 0, obc |-> 0, oac |-> 1, obcol |-> 0, oacol |-> 1, olim |-> <<"iow", 1, 16>>]
Compact == [indent |-> <<"spaces", 0>>,
            ab |-> 0, ae |-> 0, aem |-> 0, abc |-> 0, aac |-> 0, alim |-> <<"none">>,
            ob |-> 0, oe |-> 0, oem |-> 0, obc |-> 0, oac |-> 0, obcol |-> 0, oacol |-> 0, olim |-> <<"none">>]
Inline == [indent |-> <<"spaces", 0>>,
           ab |-> 1, ae |-> 1, aem |-> 0, abc |-> 0, aac |-> 1, alim |-> <<"none">>,
           ob |-> 1, oe |-> 1, oem |-> 0, obc |-> 0, oac |-> 1, obcol |-> 0, oacol |-> 1, olim |-> <<"none">>]

NumFields == {"ab", "ae", "aem", "abc", "aac", "ob", "oe", "oem", "obc", "oac", "obcol", "oacol"}

Rep(c, n) == [i \in 1..n |-> c]
Sp(n) == Rep(32, n)
IndentUnit(o) == IF o.indent[1] = "spaces" THEN Rep(32, o.indent[2]) ELSE Rep(9, o.indent[2])
RECURSIVE Times(_, _)
Times(s, n) == IF n = 0 THEN <<>> ELSE s \o Times(s, n - 1)
Indent(o, depth) == Times(IndentUnit(o), depth)

\* RFC 8785 3.2.2.2 / C08: \" \\ ; \b \t \n \f \r ; lower-case \u00xx for the other
\* characters below U+0020 ; every other character raw
EscChar(c) ==
  IF c = 34 THEN <<92, 34>>
  ELSE IF c = 92 THEN <<92, 92>>
  ELSE IF c = 8 THEN <<92, 98>>
  ELSE IF c = 9 THEN <<92, 116>>
  ELSE IF c = 10 THEN <<92, 110>>
  ELSE IF c = 12 THEN <<92, 102>>
  ELSE IF c = 13 THEN <<92, 114>>
  ELSE IF c < 32 THEN <<92, 117, 48, 48, HexChar(c \div 16), HexChar(c % 16)>>
  ELSE <<c>>

RECURSIVE EscFrom(_, _)
EscFrom(s, i) == IF i > Len(s) THEN <<>> ELSE EscChar(s[i]) \o EscFrom(s, i + 1)
StringLit(s) == <<34>> \o EscFrom(s, 1) \o <<34>>

RECURSIVE JoinSeqs(_, _)
JoinSeqs(parts, sep) == IF parts = <<>> THEN <<>>
                        ELSE IF Len(parts) = 1 THEN parts[1]
                        ELSE parts[1] \o sep \o JoinSeqs(Tail(parts), sep)

Children(v) == IF v.t = "arr" THEN v.items ELSE IF v.t = "obj" THEN [i \in 1..Len(v.entries) |-> v.entries[i].v] ELSE <<>>

\* the one-line form
RECURSIVE OneLine(_, _)
OneLine(v, o) ==
  CASE v.t = "null" -> <<110, 117, 108, 108>>
    [] v.t = "bool" -> IF v.b THEN <<116, 114, 117, 101>> ELSE <<102, 97, 108, 115, 101>>
    [] v.t = "num"  -> v.num
    [] v.t = "str"  -> StringLit(v.str)
    [] v.t = "arr"  ->
         IF v.items = <<>> THEN <<91>> \o Sp(o.aem) \o <<93>>
         ELSE <<91>> \o Sp(o.ab)
              \o JoinSeqs([i \in 1..Len(v.items) |-> OneLine(v.items[i], o)], Sp(o.abc) \o <<44>> \o Sp(o.aac))
              \o Sp(o.ae) \o <<93>>
    [] v.t = "obj"  ->
         IF v.entries = <<>> THEN <<123>> \o Sp(o.oem) \o <<125>>
         ELSE <<123>> \o Sp(o.ob)
              \o JoinSeqs([i \in 1..Len(v.entries) |->
                             StringLit(v.entries[i].k) \o Sp(o.obcol) \o <<58>> \o Sp(o.oacol) \o OneLine(v.entries[i].v, o)],
                          Sp(o.obc) \o <<44>> \o Sp(o.oac))
              \o Sp(o.oe) \o <<125>>

WithinLimit(lim, n, width) ==
  CASE lim[1] = "none"   -> TRUE
    [] lim[1] = "always" -> FALSE
    [] lim[1] = "item"   -> n <= lim[2]
    [] lim[1] = "width"  -> width <= lim[2]
    [] lim[1] = "iow"    -> n <= lim[2] /\ width <= lim[3]

RECURSIVE IsOneLine(_, _)
IsOneLine(v, o) ==
  IF ~IsContainer(v) THEN TRUE
  ELSE LET ch == Children(v) IN
       /\ \A i \in 1..Len(ch) : IsOneLine(ch[i], o)
       /\ WithinLimit(IF v.t = "arr" THEN o.alim ELSE o.olim, Len(ch), Len(OneLine(v, o)))

RECURSIVE Emit(_, _, _)
Emit(v, o, depth) ==
  IF IsOneLine(v, o) THEN OneLine(v, o)
  ELSE IF v.t = "arr" THEN
       IF v.items = <<>> THEN <<91, 10>> \o Indent(o, depth) \o <<93>>
       ELSE <<91, 10>>
            \o JoinSeqs([i \in 1..Len(v.items) |-> Indent(o, depth + 1) \o Emit(v.items[i], o, depth + 1)],
                        Sp(o.abc) \o <<44, 10>>)
            \o <<10>> \o Indent(o, depth) \o <<93>>
  ELSE IF v.entries = <<>> THEN <<123, 10>> \o Indent(o, depth) \o <<125>>
       ELSE <<123, 10>>
            \o JoinSeqs([i \in 1..Len(v.entries) |->
                           Indent(o, depth + 1) \o StringLit(v.entries[i].k) \o Sp(o.obcol) \o <<58>> \o Sp(o.oacol)
                           \o Emit(v.entries[i].v, o, depth + 1)],
                        Sp(o.obc) \o <<44, 10>>)
            \o <<10>> \o Indent(o, depth) \o <<125>>

Render(v, o) == Emit(v, o, 0)

\* delete insignificant whitespace (whitespace outside string literals)
RECURSIVE StripFrom(_, _, _, _)
StripFrom(t, i, inStr, esc) ==
  IF i > Len(t) THEN <<>>
  ELSE LET c == t[i] IN
       IF inStr THEN <<c>> \o StripFrom(t, i + 1, esc \/ c # 34, (~esc) /\ c = 92)
       ELSE IF IsWs(c) THEN StripFrom(t, i + 1, FALSE, FALSE)
       ELSE <<c>> \o StripFrom(t, i + 1, c = 34, FALSE)
StripWs(t) == StripFrom(t, 1, FALSE, FALSE)
=============================================================================
