------------------------------ MODULE Messages ------------------------------
(***************************************************************************)
(* What the crate's error values SAY: the Display text, the position and    *)
(* span accessors and the error source of                                   *)
(*   - parse errors (parse::Error),                                         *)
(*   - kind mismatches of the typed conversions (Unexpected, wrapped in     *)
(*     Mapped with a code-map offset),                                      *)
(*   - duplicate-entry errors of the unique insertions (DuplicateEntry).    *)
(* None of the listed properties fixes the wording, so deviations are       *)
(* extension deviations (aspect X02.message): reported in the evidence,     *)
(* never as violations.  A text is a sequence of pieces: strings and code   *)
(* points (integers).                                                       *)
(***************************************************************************)
EXTENDS Integers, Sequences, FiniteSets, Chars, KindSet

RECURSIVE HexDigits(_)
HexDigits(n) == IF n < 16 THEN <<HexChar(n)>> ELSE HexDigits(n \div 16) \o <<HexChar(n % 16)>>

\* e.kind \in {"stream", "unexpected", "invalid_cp", "missing_low", "invalid_low", "utf8"}
\* stream errors display as the error of the character source does (e.inner: its text)
ParseErrorText(e) ==
  CASE e.kind = "stream" -> e.inner
    [] e.kind = "unexpected" /\ e.ch # EOF -> <<"unexpected character `", e.ch, "`">>
    [] e.kind = "unexpected" /\ e.ch = EOF -> <<"unexpected end of file">>
    [] e.kind = "invalid_cp" -> <<"invalid Unicode code point ">> \o HexDigits(e.cp)
    [] e.kind = "missing_low" -> <<"missing low surrogate">>
    [] e.kind = "invalid_low" -> <<"invalid low surrogate">>
    [] e.kind = "utf8" -> <<"invalid UTF-8">>

\* errors located by one offset have the empty span at that offset; the surrogate errors carry a span
HasSpan(e) == e.kind \in {"invalid_cp", "missing_low", "invalid_low"}
ParseErrorSpan(e) == IF HasSpan(e) THEN e.span ELSE <<e.pos, e.pos>>
ParseErrorPosition(e) == ParseErrorSpan(e)[1]
\* only a stream error has a source (the error of the character source)
ParseErrorHasSource(e) == e.kind = "stream"

\* kind mismatch: "expected <disjunction of the expected kinds>, found <kind>"
UnexpectedText(expected, found) == <<"expected ">> \o Disjunction(expected) \o <<", found ", KindNames[found]>>
\* Mapped<T> displays as its value and names it as its source
MappedText(t) == t

\* errors of the serde layer: a custom message (what serde's `Error::custom` was given) displays verbatim
\* e.variant \in {"custom", "non_string_key", "malformed_number"} ("malformed_number": serializer only)
SerdeErrorText(e) ==
  CASE e.variant = "custom" -> e.msg
    [] e.variant = "non_string_key" -> <<"key must be a string">>
    [] e.variant = "malformed_number" -> <<"malformed high-precision number">>

\* duplicate entry: the key, raw (no JSON escaping), between backquotes
DuplicateEntryText(key) == <<"duplicate entry `">> \o key \o <<"`">>
=============================================================================
