------------------------------- MODULE Decimal -------------------------------
(***************************************************************************)
(* Exact decimal / binary arithmetic for the number rules of RFC 8785       *)
(* (JCS) section 3.2.2.3, i.e. ECMA-262 Number::toString:                   *)
(*   - a JSON number spelling denotes the exact decimal  digits * 10^x ;    *)
(*   - an IEEE-754 double is  m * 2^e  (0 <= m < 2^53, e >= -1074);         *)
(*   - IsNearestDouble: the double is the correctly rounded one             *)
(*     (round-half-even, binade boundaries, subnormals);                    *)
(*   - a rendering  s * 10^(n-k)  (k digits) is canonical iff it rounds to  *)
(*     the double, k is minimal, s is closest to the double, and the text   *)
(*     follows the Number::toString layout.                                 *)
(* Everything is decided with integers (BigNat): no floating point.         *)
(***************************************************************************)
EXTENDS BigNat, Chars

Max(a, b) == IF a >= b THEN a ELSE b

\* ----------------------------------------------------------------- lexical
FirstIndex(s, S) == LET RECURSIVE go(_)
                        go(i) == IF i > Len(s) THEN 0 ELSE IF s[i] \in S THEN i ELSE go(i + 1)
                    IN go(1)
DigitVals(s) == [i \in 1..Len(s) |-> s[i] - 48]
RECURSIVE StripLeading(_)
StripLeading(ds) == IF ds # <<>> /\ ds[1] = 0 THEN StripLeading(Tail(ds)) ELSE ds
RECURSIVE StripTrailing(_)
StripTrailing(ds) == IF ds # <<>> /\ ds[Len(ds)] = 0 THEN StripTrailing(SubSeq(ds, 1, Len(ds) - 1)) ELSE ds

RECURSIVE SmallInt(_)
\* value of a short digit sequence, saturating at 100000 (exponents beyond any double)
SmallInt(ds) == IF ds = <<>> THEN 0
                ELSE LET v == SmallInt(SubSeq(ds, 1, Len(ds) - 1)) * 10 + ds[Len(ds)] IN IF v > 100000 THEN 100000 ELSE v

\* [-] int [. frac] [(e|E) [+|-] digits]   ->   [neg, digits, x] : value = (-1)^neg * digits * 10^x
ParseDec(s) ==
  LET neg  == s[1] = 45
      body == IF neg THEN Tail(s) ELSE s
      ep   == FirstIndex(body, {69, 101})
      mant == IF ep = 0 THEN body ELSE SubSeq(body, 1, ep - 1)
      exps == IF ep = 0 THEN <<>> ELSE SubSeq(body, ep + 1, Len(body))
      dot  == FirstIndex(mant, {46})
      intd == IF dot = 0 THEN mant ELSE SubSeq(mant, 1, dot - 1)
      frac == IF dot = 0 THEN <<>> ELSE SubSeq(mant, dot + 1, Len(mant))
      eneg == exps # <<>> /\ exps[1] = 45
      edig == IF exps # <<>> /\ exps[1] \in {43, 45} THEN Tail(exps) ELSE exps
      ev   == SmallInt(StripLeading(DigitVals(edig)))
  IN [neg |-> neg, digits |-> StripLeading(DigitVals(intd \o frac)), x |-> (IF eneg THEN 0 - ev ELSE ev) - Len(frac)]

\* -------------------------------------------------------------- comparison
\* compare  dg * 10^x  with  k * 2^j   (dg, k BigNat; x, j integers)
CmpDecBin(dg, x, k, j) ==
  Cmp(Mul(MulPow10(dg, Max(x, 0)), Pow2(Max(0 - j, 0))),
      Mul(MulPow10(k, Max(0 - x, 0)), Pow2(Max(j, 0))))

TwoPow52 == Pow2(52)
One == <<1>>

\* dg * 10^x lies in the rounding interval of the double m * 2^e (ties go to the even mantissa)
InInterval(dg, x, m, e) ==
  LET cu == CmpDecBin(dg, x, Add(MulSmall(m, 2), One), e - 1)
      cl == IF m = <<>> THEN 1
            ELSE IF m = TwoPow52 /\ e > -1074 THEN CmpDecBin(dg, x, Sub(MulSmall(m, 4), One), e - 2)
            ELSE CmpDecBin(dg, x, Sub(MulSmall(m, 2), One), e - 1)
  IN (cu < 0 \/ (cu = 0 /\ IsEven(m))) /\ (cl > 0 \/ (cl = 0 /\ IsEven(m)))

\* m * 2^e is the double nearest to the decimal d (as returned by ParseDec)
IsNearestDouble(d, m, e) ==
  /\ e >= -1074 /\ e <= 971
  /\ Cmp(m, Pow2(53)) < 0
  /\ (e > -1074 => Cmp(m, TwoPow52) >= 0)             \* normalised unless subnormal
  /\ InInterval(FromDigits(d.digits), d.x, m, e)

\* the same for a binary format with `prec` bits of precision and minimal exponent emin
\* (binary64: 53, -1074; binary32: 24, -149): the decimal d rounds to m * 2^e
RoundsTo(d, m, e, prec, emin) ==
  LET dg == FromDigits(d.digits)
      top == Pow2(prec - 1)
      cu == CmpDecBin(dg, d.x, Add(MulSmall(m, 2), One), e - 1)
      cl == IF m = <<>> THEN 1
            ELSE IF m = top /\ e > emin THEN CmpDecBin(dg, d.x, Sub(MulSmall(m, 4), One), e - 2)
            ELSE CmpDecBin(dg, d.x, Sub(MulSmall(m, 2), One), e - 1)
  IN /\ e >= emin
     /\ Cmp(m, Pow2(prec)) < 0
     /\ (e > emin => Cmp(m, top) >= 0)
     /\ (cu < 0 \/ (cu = 0 /\ IsEven(m))) /\ (cl > 0 \/ (cl = 0 /\ IsEven(m)))
Prec(w) == IF w = 32 THEN 24 ELSE 53
EMin(w) == IF w = 32 THEN -149 ELSE -1074

\* |dg * 10^p - m * 2^e| on a common integer scale
Dist(dg, p, m, e) ==
  LET a == Mul(MulPow10(dg, Max(p, 0)), Pow2(Max(0 - e, 0)))
      v == Mul(MulPow10(m, Max(0 - p, 0)), Pow2(Max(e, 0)))
  IN IF Cmp(a, v) >= 0 THEN Sub(a, v) ELSE Sub(v, a)

\* ----------------------------------------------------- Number::toString layout
RECURSIVE NatChars(_)
NatChars(v) == IF v < 10 THEN <<48 + v>> ELSE NatChars(v \div 10) \o <<48 + (v % 10)>>
Chars10(ds) == [i \in 1..Len(ds) |-> ds[i] + 48]
Zeros(n) == [i \in 1..n |-> 48]

\* s: digit values (k of them, no leading / trailing zero unless k = 1), value = 0.s * 10^n
EcmaLayout(neg, s, n) ==
  LET k == Len(s) sign == IF neg THEN <<45>> ELSE <<>> IN
  sign \o
  (IF k <= n /\ n <= 21 THEN Chars10(s) \o Zeros(n - k)
   ELSE IF 0 < n /\ n <= 21 THEN Chars10(SubSeq(s, 1, n)) \o <<46>> \o Chars10(SubSeq(s, n + 1, k))
   ELSE IF -6 < n /\ n <= 0 THEN <<48, 46>> \o Zeros(0 - n) \o Chars10(s)
   ELSE LET ex == n - 1
            es == <<101>> \o (IF ex >= 0 THEN <<43>> ELSE <<45>>) \o NatChars(IF ex >= 0 THEN ex ELSE 0 - ex)
        IN IF k = 1 THEN Chars10(s) \o es
           ELSE <<48 + s[1], 46>> \o Chars10(SubSeq(s, 2, k)) \o es)

(***************************************************************************)
(* CanonNum(spelling, m, e, r): "" if r is the RFC 8785 rendering of the    *)
(* number spelled `spelling`, whose nearest double is claimed to be         *)
(* m * 2^e (m given as decimal digit values); otherwise the reason.         *)
(*   "certificate": the claimed double is not the nearest one (an error of  *)
(*                  the harness, not of the code under test).               *)
(***************************************************************************)
CanonNum(spelling, mdigits, e, r) ==
  LET d  == ParseDec(spelling)
      m  == FromDigits(StripLeading(mdigits))
  IN
  IF ~IsNearestDouble(d, m, e) THEN "certificate"
  ELSE IF m = <<>> THEN (IF r = <<48>> THEN "" ELSE "zero")            \* 0 and -0 print as 0
  ELSE LET p   == ParseDec(r)
           s   == StripTrailing(p.digits)
           tz  == Len(p.digits) - Len(s)
           k   == Len(s)
           px  == p.x + tz                                             \* r = s * 10^px
           n   == k + px
           sb  == FromDigits(s)
       IN
       IF p.neg # d.neg THEN "sign"
       ELSE IF s = <<>> THEN "zero"
       ELSE IF EcmaLayout(p.neg, s, n) # r THEN "layout"
       ELSE IF ~InInterval(sb, px, m, e) THEN "roundtrip"
       \* a shorter digit string in the interval?  (its two neighbours on the coarser grid)
       ELSE IF k > 1 /\ LET t == FromDigits(SubSeq(s, 1, k - 1)) IN
                        InInterval(t, px + 1, m, e) \/ InInterval(Add(t, One), px + 1, m, e)
            THEN "not_shortest"
       \* a k-digit neighbour in the interval that is strictly closer to the double?
       ELSE IF \/ (InInterval(Add(sb, One), px, m, e) /\ Cmp(Dist(Add(sb, One), px, m, e), Dist(sb, px, m, e)) < 0)
               \/ (InInterval(Sub(sb, One), px, m, e) /\ Cmp(Dist(Sub(sb, One), px, m, e), Dist(sb, px, m, e)) < 0)
            THEN "not_closest"
       ELSE ""

\* two spellings denote the same real number
SameValue(a, b) ==
  LET da == ParseDec(a) db == ParseDec(b)
      za == da.digits = <<>> zb == db.digits = <<>> IN
  IF za \/ zb THEN za = zb
  ELSE da.neg = db.neg /\ LET lo == IF da.x < db.x THEN da.x ELSE db.x IN
       Cmp(MulPow10(FromDigits(da.digits), da.x - lo), MulPow10(FromDigits(db.digits), db.x - lo)) = 0

ASSUME ParseDec(<<45, 49, 46, 53, 48, 69, 43, 51>>) = [neg |-> TRUE, digits |-> <<1, 5, 0>>, x |-> 1]
ASSUME EcmaLayout(FALSE, <<1>>, 22) = <<49, 101, 43, 50, 49>>
ASSUME EcmaLayout(FALSE, <<1>>, 21) = <<49>> \o Zeros(20)
ASSUME EcmaLayout(TRUE, <<1, 5>>, -6) = <<45, 49, 46, 53, 101, 45, 55>>
ASSUME EcmaLayout(FALSE, <<1>>, -5) = <<48, 46, 48, 48, 48, 48, 48, 49>>
\* 0.1 is 7205759403792794 * 2^-56 and prints as 0.1
ASSUME CanonNum(<<48, 46, 49>>, <<7, 2, 0, 5, 7, 5, 9, 4, 0, 3, 7, 9, 2, 7, 9, 4>>, -56, <<48, 46, 49>>) = ""
ASSUME CanonNum(<<48, 46, 49>>, <<7, 2, 0, 5, 7, 5, 9, 4, 0, 3, 7, 9, 2, 7, 9, 4>>, -56, <<48, 46, 49, 48>>) = "layout"
ASSUME CanonNum(<<48, 46, 49>>, <<7, 2, 0, 5, 7, 5, 9, 4, 0, 3, 7, 9, 2, 7, 9, 5>>, -56, <<48, 46, 49>>) = "certificate"
\* 1e21 -> 1e+21 ; 333333333.33333329 -> 333333333.3333333
ASSUME CanonNum(<<49, 101, 50, 49>>, <<7, 6, 2, 9, 3, 9, 4, 5, 3, 1, 2, 5, 0, 0, 0, 0>>, 17, <<49, 101, 43, 50, 49>>) = ""
ASSUME CanonNum(<<49, 101, 50, 49>>, <<7, 6, 2, 9, 3, 9, 4, 5, 3, 1, 2, 5, 0, 0, 0, 0>>, 17, <<49>> \o Zeros(21)) = "layout"
=============================================================================
