------------------------------ MODULE SerdeJson ------------------------------
(***************************************************************************)
(* The two structural conversions with serde_json::Value (C18).             *)
(* A serde_json value has sorted, duplicate-free maps and three number      *)
(* classes: PosInt (u64), NegInt (i64 < 0), Float (finite f64).  Here a     *)
(* number is [cls, n] with n the integer (as decimal spelling) or, for a    *)
(* float, an abstract identity of the double.                               *)
(*   FromSJ: numbers keep their value (rendered as text), maps become       *)
(*           objects in the map's (sorted) order;                           *)
(*   ToSJ  : objects become maps (member order is lost), a number becomes   *)
(*           PosInt / NegInt when it is a 64-bit integer, else the double   *)
(*           nearest to it; a magnitude outside the double range has no     *)
(*           serde_json number (null).                                      *)
(* The design-level laws: ToSJ(FromSJ(s)) = s, and FromSJ(ToSJ(v)) equals v *)
(* up to member order and number spelling.                                  *)
(***************************************************************************)
EXTENDS Integers, Sequences, FiniteSets, JsonObject

\* abstract values: atoms, numbers by class, arrays, maps (sets of <<key, value>> with unique keys)
SNull == [t |-> "null"]
SNum(cls, n) == [t |-> "num", cls |-> cls, n |-> n]
SArr(xs) == [t |-> "arr", items |-> xs]
SMap(m) == [t |-> "map", m |-> m]

\* the json-syntax side, abstractly: numbers are "denotations" (class + number), objects are sequences
JNum(cls, n) == [t |-> "num", cls |-> cls, n |-> n]
JObj(es) == [t |-> "obj", entries |-> es]

\* the entries of a map in ascending key order (keys are code-point sequences)
RECURSIVE SetToSeq(_)
SetToSeq(S) == IF S = {} THEN <<>>
               ELSE LET x == CHOOSE x \in S : \A y \in S : y = x \/ SeqLess(x[1], y[1]) IN <<x>> \o SetToSeq(S \ {x})

RECURSIVE FromSJ(_)
FromSJ(s) == CASE s.t = "arr" -> [t |-> "arr", items |-> [i \in 1..Len(s.items) |-> FromSJ(s.items[i])]]
               [] s.t = "map" -> JObj([i \in 1..Cardinality(s.m) |-> LET e == SetToSeq(s.m)[i] IN <<e[1], FromSJ(e[2])>>])
               [] OTHER -> s
RECURSIVE ToSJ(_)
ToSJ(v) == CASE v.t = "arr" -> SArr([i \in 1..Len(v.items) |-> ToSJ(v.items[i])])
             [] v.t = "obj" -> SMap({<<v.entries[i][1], ToSJ(v.entries[i][2])>> : i \in 1..Len(v.entries)})
             [] OTHER -> v
=============================================================================
