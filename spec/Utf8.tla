-------------------------------- MODULE Utf8 --------------------------------
(***************************************************************************)
(* Well-formed UTF-8 (Unicode 15, section 3.9, Table 3-7) as a byte-level   *)
(* decoder state machine, plus a declarative definition, plus the parser    *)
(* run on byte input (C01: byte input must be well-formed UTF-8; C07:       *)
(* ill-formed UTF-8 is reported at the offset of the first ill-formed       *)
(* sequence unless a syntax error occurs strictly before it).               *)
(*                                                                          *)
(*   Code points    First     Second    Third     Fourth                    *)
(*   0000..007F     00..7F                                                  *)
(*   0080..07FF     C2..DF    80..BF                                        *)
(*   0800..0FFF     E0        A0..BF    80..BF                              *)
(*   1000..CFFF     E1..EC    80..BF    80..BF                              *)
(*   D000..D7FF     ED        80..9F    80..BF                              *)
(*   E000..FFFF     EE..EF    80..BF    80..BF                              *)
(*   10000..3FFFF   F0        90..BF    80..BF    80..BF                    *)
(*   40000..FFFFF   F1..F3    80..BF    80..BF    80..BF                    *)
(*   100000..10FFFF F4        80..8F    80..BF    80..BF                    *)
(***************************************************************************)
EXTENDS Integers, Sequences, Chars, JsonParser

\* decoder state: need = continuation bytes still expected; [lo, hi] = range
\* allowed for the NEXT byte; acc = bits so far; start = offset of the lead byte
DInit == [need |-> 0, lo |-> 128, hi |-> 191, acc |-> 0]

\* result of feeding one byte: "char" (a scalar is complete), "more", or "bad"
DStep(d, b) ==
  IF d.need = 0 THEN
       IF b <= 127 THEN [r |-> "char", c |-> b, d |-> DInit]
       ELSE IF b \in 194..223 THEN [r |-> "more", d |-> [need |-> 1, lo |-> 128, hi |-> 191, acc |-> b - 192]]
       ELSE IF b = 224 THEN [r |-> "more", d |-> [need |-> 2, lo |-> 160, hi |-> 191, acc |-> 0]]
       ELSE IF b \in 225..236 \/ b \in 238..239 THEN [r |-> "more", d |-> [need |-> 2, lo |-> 128, hi |-> 191, acc |-> b - 224]]
       ELSE IF b = 237 THEN [r |-> "more", d |-> [need |-> 2, lo |-> 128, hi |-> 159, acc |-> 13]]
       ELSE IF b = 240 THEN [r |-> "more", d |-> [need |-> 3, lo |-> 144, hi |-> 191, acc |-> 0]]
       ELSE IF b \in 241..243 THEN [r |-> "more", d |-> [need |-> 3, lo |-> 128, hi |-> 191, acc |-> b - 240]]
       ELSE IF b = 244 THEN [r |-> "more", d |-> [need |-> 3, lo |-> 128, hi |-> 143, acc |-> 4]]
       ELSE [r |-> "bad"]                       \* 80..BF, C0, C1, F5..FF
  ELSE IF b < d.lo \/ b > d.hi THEN [r |-> "bad"]
  ELSE LET a == d.acc * 64 + (b - 128) IN
       IF d.need = 1 THEN [r |-> "char", c |-> a, d |-> DInit]
       ELSE [r |-> "more", d |-> [need |-> d.need - 1, lo |-> 128, hi |-> 191, acc |-> a]]

\* Decode(bs) = [chars, bad]: the scalars of the longest well-formed prefix and
\* the offset of the first ill-formed sequence (-1 if none).  A sequence cut
\* short by the end of input is ill-formed at its lead byte.
RECURSIVE DecodeFrom(_, _, _, _, _)
DecodeFrom(bs, i, d, start, chars) ==
  IF i > Len(bs) THEN [chars |-> chars, bad |-> IF d.need = 0 THEN -1 ELSE start]
  ELSE LET r == DStep(d, bs[i]) IN
       IF r.r = "bad" THEN [chars |-> chars, bad |-> IF d.need = 0 THEN i - 1 ELSE start]
       ELSE IF r.r = "char" THEN DecodeFrom(bs, i + 1, DInit, i, Append(chars, r.c))
       ELSE DecodeFrom(bs, i + 1, r.d, IF d.need = 0 THEN i - 1 ELSE start, chars)
Decode(bs) == DecodeFrom(bs, 1, DInit, 0, <<>>)

\* declarative: bs is the concatenation of the UTF-8 encodings of scalar values
RECURSIVE EncodeAll(_)
EncodeAll(cs) == IF cs = <<>> THEN <<>> ELSE Utf8(Head(cs)) \o EncodeAll(Tail(cs))
WellFormedAs(bs, cs) == (\A i \in 1..Len(cs) : IsScalar(cs[i])) /\ EncodeAll(cs) = bs

ErrUtf8(p) == [kind |-> "utf8", pos |-> p]

\* the parser on byte input: the decoded characters of the well-formed prefix
\* are parsed; if the parser has not failed before the first ill-formed
\* sequence is reached, the outcome is an invalid-UTF-8 error at its offset.
RunBytes(bs, o) ==
  LET d == Decode(bs)
      s == RunFrom(Init, d.chars, 1, o)
  IN IF d.bad = -1 THEN Finish(s, o)
     ELSE IF s.mode = "err" THEN s
     ELSE Fail(s, ErrUtf8(d.bad))
=============================================================================
