------------------------------- MODULE Sweeps -------------------------------
(***************************************************************************)
(* Exhaustive sweeps over huge finite domains (all 1,112,064 scalar values  *)
(* as raw characters / printed characters, all 65,536 \uXXXX escapes, all   *)
(* 1,048,576 surrogate pairs).  For every element x of a domain the         *)
(* specification assigns an outcome tuple  <<tag, p1, p2, ...>>  (SpecT).   *)
(* The harness runs the real code on EVERY element, and compresses the      *)
(* observed tuples into maximal runs [lo, hi, tag, (a_i, b_i)] on which     *)
(* p_i = a_i * x + b_i; the trace specification TraceSweep then checks      *)
(* SpecT(x) against the run's closed form (all x, or end points + samples). *)
(***************************************************************************)
EXTENDS JsonParser, JsonPrinter

UpHexChar(d) == IF d < 10 THEN 48 + d ELSE 55 + d
Hex4(x, upper) == LET H(d) == IF upper THEN UpHexChar(d) ELSE HexChar(d) IN
                  <<H(x \div 4096), H((x \div 256) % 16), H((x \div 16) % 16), H(x % 16)>>

\* outcome tuple of parsing a document whose value (or first key) is one string
StrOf(st, inKey) == IF inKey THEN st.val.entries[1].k ELSE st.val.str
ParseTuple(text, o, inKey) ==
  LET st == Run(text, o) IN
  IF st.mode = "done"
  THEN LET s == StrOf(st, inKey) IN <<"ok", Len(s), IF Len(s) >= 1 THEN s[1] ELSE -1, IF Len(s) >= 2 THEN s[2] ELSE -1>>
  ELSE IF st.err.kind = "unexpected" THEN <<"unexpected", st.err.pos, st.err.ch, -1>>
  ELSE <<st.err.variant, st.err.units[1], IF Len(st.err.units) >= 2 THEN st.err.units[2] ELSE -1, -1>>

InStr(body) == <<34>> \o body \o <<34>>
InKey(body) == <<123, 34>> \o body \o <<34, 58, 48, 125>>

Pad(s, n) == [i \in 1..n |-> IF i <= Len(s) THEN s[i] ELSE -1]
\* the n characters after the first d, padded with -1
DropPad(s, d, n) == [i \in 1..n |-> IF d + i <= Len(s) THEN s[d + i] ELSE -1]

\* outcome tuple of a whole document: the number of fragments and the span of the last one, or the error
DocTuple(text) ==
  LET st == Run(text, Strict) IN
  IF st.mode = "done" THEN <<"ok", Len(st.cm), st.cm[Len(st.cm)].s, st.cm[Len(st.cm)].e>>
  ELSE IF st.err.kind = "unexpected" THEN <<"unexpected", st.err.pos, st.err.ch, -1>>
  ELSE <<st.err.variant, st.err.units[1], IF Len(st.err.units) >= 2 THEN st.err.units[2] ELSE -1, -1>>

\* the syntactic contexts in which every scalar is tried ("ctx" sweeps): <<prefix, suffix>>
Contexts == [
  str_then_item  |-> <<<<91, 34>>, <<34, 44, 49, 93>>>>,          \* ["x",1]   positions after a raw character
  after_int      |-> <<<<91, 49>>, <<93>>>>,                       \* [1x]
  value_start    |-> <<<<91>>, <<93>>>>,                           \* [x]
  after_comma    |-> <<<<91, 49, 44>>, <<93>>>>,                   \* [1,x]
  after_key      |-> <<<<123, 34, 97, 34>>, <<58, 49, 125>>>>,     \* {"a"x:1}
  after_member   |-> <<<<123, 34, 97, 34, 58, 49>>, <<125>>>>,     \* {"a":1x}
  in_literal     |-> <<<<91, 116, 114, 117>>, <<93>>>>,            \* [trux]
  after_minus    |-> <<<<91, 45>>, <<93>>>>,                       \* [-x]
  after_point    |-> <<<<91, 49, 46>>, <<53, 93>>>>,               \* [1.x5]
  after_exp      |-> <<<<91, 49, 101>>, <<49, 93>>>>,              \* [1ex1]
  after_zero     |-> <<<<91, 48>>, <<93>>>>,                       \* [0x]
  top            |-> <<<<>>, <<>>>>,                               \* x
  after_top_num  |-> <<<<49>>, <<>>>>,                             \* 1x
  after_top_val  |-> <<<<91, 93>>, <<>>>>,                         \* []x
  obj_start      |-> <<<<123>>, <<125>>>>                          \* {x}
]

\* sw = <<name, parameters...>>
SpecT(sw, x) ==
  CASE sw[1] = "raw_str"   -> ParseTuple(InStr(<<x>>), MkOpts(sw[2], sw[3]), FALSE)
    [] sw[1] = "raw_key"   -> ParseTuple(InKey(<<x>>), MkOpts(sw[2], sw[3]), TRUE)
    [] sw[1] = "esc_ascii" -> ParseTuple(InStr(<<92, x>>), MkOpts(sw[2], sw[3]), FALSE)
    \* \uXXXX, lower / upper case hex digits
    [] sw[1] = "esc_u"     -> ParseTuple(InStr(<<92, 117>> \o Hex4(x, sw[4])), MkOpts(sw[2], sw[3]), FALSE)
    [] sw[1] = "esc_u_key" -> ParseTuple(InKey(<<92, 117>> \o Hex4(x, sw[4])), MkOpts(sw[2], sw[3]), TRUE)
    \* a fixed first escape sw[5] followed by every second escape x
    [] sw[1] = "esc_pair"  -> ParseTuple(InStr(<<92, 117>> \o Hex4(sw[5], sw[4]) \o <<92, 117>> \o Hex4(x, ~sw[4])), MkOpts(sw[2], sw[3]), FALSE)
    \* every first escape x followed by a fixed second escape sw[5]
    [] sw[1] = "esc_pair2" -> ParseTuple(InStr(<<92, 117>> \o Hex4(x, sw[4]) \o <<92, 117>> \o Hex4(sw[5], sw[4])), MkOpts(sw[2], sw[3]), FALSE)
    \* every character x in hex-digit position sw[2] (1..4) of a \uXXXX escape, the other digits being 0 / 4 / 1
    [] sw[1] = "esc_hexchar" -> ParseTuple(InStr(<<92, 117>> \o [i \in 1..4 |-> IF i = sw[2] THEN x ELSE <<48, 48, 52, 49>>[i]]), Strict, FALSE)
    \* the arithmetic of surrogate pairs, all 1024 x 1024 combinations: x = (h - D800) * 1024 + (l - DC00)
    [] sw[1] = "combine"   -> <<"ok", 1, Combine(55296 + (x \div 1024), 56320 + (x % 1024)), -1>>
    \* compact printing of a one-character string / key
    [] sw[1] = "print_str" -> <<"text">> \o Pad(Render(VStr(<<x>>), Compact), 9)
    [] sw[1] = "print_key" -> <<"text">> \o Pad(Render(VObj(<<Entry(<<x>>, VNull)>>), Compact), 16)
    \* every scalar in a syntactic context (through the string or the byte-slice entry point: same outcome)
    [] sw[1] = "ctx" -> LET c == Contexts[sw[2]] IN DocTuple(c[1] \o <<x>> \o c[2])
    \* compact text of a string / key longer than the inline capacity whose last character is x (String::from / to_string)
    [] sw[1] = "print_long_str" -> <<"text">> \o DropPad(Render(VStr(Rep(97, 20) \o <<x>>), Compact), 21, 9)
    [] sw[1] = "print_long_key" -> <<"text">> \o DropPad(Render(VObj(<<Entry(Rep(97, 20) \o <<x>>, VNull)>>), Compact), 22, 14)
    \* x ordinary characters followed by one character sw[2] that needs an escape / several bytes: the length of the compact
    \* text and its last characters (the position of an escape inside a long string must not matter)
    [] sw[1] = "print_pad" -> LET t == Render(VStr(Rep(97, x) \o <<sw[2]>>), Compact) IN
                              <<"tail", Len(t)>> \o DropPad(t, x + 1, 8)
    \* the public follow-set predicate of the four parsing contexts (what may come right after a value) and the whitespace set:
    \* <<none, array, object key, object value, is_whitespace>> as 0 / 1
    [] sw[1] = "follows" -> LET B(b) == IF b THEN 1 ELSE 0 IN
                            <<"follows", B(IsWs(x)), B(IsWs(x) \/ x \in {44, 93}), B(IsWs(x) \/ x = 58), B(IsWs(x) \/ x \in {44, 125}), B(IsWs(x))>>
    \* the width the layout decision must attribute to a one-character string / key: the smallest Width limit under which
    \* ["x"] / {"x":null} still stays on one line is the number of characters of its one-line form (C13)
    [] sw[1] = "width_str" -> <<"width", Len(OneLine(VArr(<<VStr(<<x>>)>>), Compact))>>
    [] sw[1] = "width_key" -> <<"width", Len(OneLine(VObj(<<Entry(<<x>>, VNull)>>), Compact))>>
=============================================================================
