------------------------------- MODULE BigNat -------------------------------
(***************************************************************************)
(* Arbitrary-precision naturals for TLC (whose integers are 32-bit): a      *)
(* number is a sequence of base-10^4 limbs, least significant first, with   *)
(* no most-significant zero limb; zero is <<>>.  Limb products stay below   *)
(* 2^31.  Used to check the numeric certificates of C09 / C16-C18 with      *)
(* exact integer arithmetic.                                                *)
(***************************************************************************)
EXTENDS Integers, Sequences

B == 10000

RECURSIVE Norm(_)
Norm(a) == IF a = <<>> THEN <<>> ELSE IF a[Len(a)] = 0 THEN Norm(SubSeq(a, 1, Len(a) - 1)) ELSE a

RECURSIVE FromSmall(_)
FromSmall(n) == IF n = 0 THEN <<>> ELSE <<n % B>> \o FromSmall(n \div B)

Limb(a, i) == IF i <= Len(a) THEN a[i] ELSE 0

RECURSIVE AddFrom(_, _, _, _)
AddFrom(a, b, i, c) ==
  IF i > Len(a) /\ i > Len(b) THEN (IF c = 0 THEN <<>> ELSE <<c>>)
  ELSE LET s == Limb(a, i) + Limb(b, i) + c IN <<s % B>> \o AddFrom(a, b, i + 1, s \div B)
Add(a, b) == AddFrom(a, b, 1, 0)

\* a - b for a >= b
RECURSIVE SubFrom(_, _, _, _)
SubFrom(a, b, i, borrow) ==
  IF i > Len(a) THEN <<>>
  ELSE LET d == a[i] - Limb(b, i) - borrow IN
       IF d < 0 THEN <<d + B>> \o SubFrom(a, b, i + 1, 1) ELSE <<d>> \o SubFrom(a, b, i + 1, 0)
Sub(a, b) == Norm(SubFrom(a, b, 1, 0))

\* a * k for a small natural k (k <= 100000 keeps limb * k + carry below 2^31)
RECURSIVE MulSmallFrom(_, _, _, _)
MulSmallFrom(a, k, i, c) ==
  IF i > Len(a) THEN FromSmall(c)
  ELSE LET p == a[i] * k + c IN <<p % B>> \o MulSmallFrom(a, k, i + 1, p \div B)
MulSmall(a, k) == IF k = 0 \/ a = <<>> THEN <<>> ELSE MulSmallFrom(a, k, 1, 0)

Shift(a, n) == IF a = <<>> THEN <<>> ELSE [i \in 1..n |-> 0] \o a

RECURSIVE MulFrom(_, _, _)
MulFrom(a, b, i) == IF i > Len(b) THEN <<>> ELSE Add(Shift(MulSmall(a, b[i]), i - 1), MulFrom(a, b, i + 1))
Mul(a, b) == IF Len(a) >= Len(b) THEN MulFrom(a, b, 1) ELSE MulFrom(b, a, 1)

RECURSIVE Pow2(_)
Pow2(j) == IF j = 0 THEN <<1>> ELSE IF j >= 13 THEN MulSmall(Pow2(j - 13), 8192) ELSE MulSmall(Pow2(j - 1), 2)

Pow10Small(r) == CASE r = 0 -> 1 [] r = 1 -> 10 [] r = 2 -> 100 [] r = 3 -> 1000
Pow10(x) == Shift(<<Pow10Small(x % 4)>>, x \div 4)
MulPow10(a, x) == Shift(MulSmall(a, Pow10Small(x % 4)), x \div 4)

\* -1, 0, 1
RECURSIVE CmpFrom(_, _, _)
CmpFrom(a, b, i) == IF i = 0 THEN 0 ELSE IF a[i] < b[i] THEN -1 ELSE IF a[i] > b[i] THEN 1 ELSE CmpFrom(a, b, i - 1)
Cmp(a, b) == IF Len(a) < Len(b) THEN -1 ELSE IF Len(a) > Len(b) THEN 1 ELSE CmpFrom(a, b, Len(a))

IsEven(a) == a = <<>> \/ a[1] % 2 = 0

\* decimal digits (most significant first, values 0..9) -> BigNat
FromDigits(ds) ==
  LET n == Len(ds)
      D(i) == IF i >= 1 THEN ds[i] ELSE 0
      nl == (n + 3) \div 4
  IN Norm([j \in 1..nl |-> LET hi == n - 4 * (j - 1) IN D(hi) + 10 * D(hi - 1) + 100 * D(hi - 2) + 1000 * D(hi - 3)])

\* sanity checks evaluated once by TLC
ASSUME Add(<<9999, 9999>>, <<1>>) = <<0, 0, 1>>
ASSUME Mul(<<9999, 9999>>, <<9999, 9999>>) = <<1, 0, 9998, 9999>>
ASSUME FromDigits(<<1, 2, 3, 4, 5>>) = <<2345, 1>>
ASSUME Pow2(20) = <<8576, 104>>
ASSUME Sub(<<0, 0, 1>>, <<1>>) = <<9999, 9999>>
ASSUME Cmp(Pow10(5), <<0, 10>>) = 0
ASSUME MulPow10(<<7>>, 6) = <<0, 700>>
=============================================================================
