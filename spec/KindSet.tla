------------------------------ MODULE KindSet ------------------------------
(***************************************************************************)
(* KindSet as a mathematical set over the six value kinds (C20).  Kinds are *)
(* numbered 1..6 in the documented ascending order                          *)
(*   null < boolean < number < string < array < object.                     *)
(* The iterator is a state machine over the remaining set with two          *)
(* actions (front / back).  Renderings are sequences of string pieces.      *)
(***************************************************************************)
EXTENDS Integers, Sequences, FiniteSets

KindNames == <<"null", "boolean", "number", "string", "array", "object">>
K == 1..6
Sets == SUBSET K

Min(S) == CHOOSE x \in S : \A y \in S : x <= y
Max(S) == CHOOSE x \in S : \A y \in S : x >= y

RECURSIVE Ascending(_)
Ascending(S) == IF S = {} THEN <<>> ELSE <<Min(S)>> \o Ascending(S \ {Min(S)})

Or(a, b)  == a \cup b
And(a, b) == a \cap b

\* iterator: rest = the kinds not yet yielded
NextFront(rest) == IF rest = {} THEN [y |-> 0, rest |-> {}] ELSE [y |-> Min(rest), rest |-> rest \ {Min(rest)}]
NextBack(rest)  == IF rest = {} THEN [y |-> 0, rest |-> {}] ELSE [y |-> Max(rest), rest |-> rest \ {Max(rest)}]

\* Display of a set: "a, b, c"
RECURSIVE Join(_, _)
Join(names, sep) == IF names = <<>> THEN <<>>
                    ELSE IF Len(names) = 1 THEN <<names[1]>>
                    ELSE <<names[1], sep>> \o Join(Tail(names), sep)
Names(S) == [i \in 1..Cardinality(S) |-> KindNames[Ascending(S)[i]]]
Display(S) == Join(Names(S), ", ")

\* "nothing" | single kind | "a, b or c" | "anything"
Junction(S, word) ==
  IF S = K THEN <<"anything">>
  ELSE IF S = {} THEN <<"nothing">>
  ELSE LET ns == Names(S) n == Len(ns) IN
       IF n = 1 THEN <<ns[1]>>
       ELSE Join(SubSeq(ns, 1, n - 1), ", ") \o <<word, ns[n]>>
Disjunction(S) == Junction(S, " or ")
Conjunction(S) == Junction(S, " and ")
=============================================================================
