------------------------------ MODULE KindSet ------------------------------
(***************************************************************************)
(* KindSet as a mathematical set over the six value kinds (C20).  Kinds are *)
(* numbered 1..6 in the documented ascending order                          *)
(*   null < boolean < number < string < array < object.                     *)
(* The iterator is a state machine over the remaining set with two          *)
(* actions (front / back).  Renderings are sequences of string pieces.      *)
(***************************************************************************)
EXTENDS Integers, Sequences, FiniteSets

KindNames == <<"null", "boolean", "number", "string", "array", "object">>
K == 1..6
Sets == SUBSET K

Min(S) == CHOOSE x \in S : \A y \in S : x <= y
Max(S) == CHOOSE x \in S : \A y \in S : x >= y

RECURSIVE Ascending(_)
Ascending(S) == IF S = {} THEN <<>> ELSE <<Min(S)>> \o Ascending(S \ {Min(S)})

Or(a, b)  == a \cup b
And(a, b) == a \cap b

\* iterator: rest = the kinds not yet yielded
NextFront(rest) == IF rest = {} THEN [y |-> 0, rest |-> {}] ELSE [y |-> Min(rest), rest |-> rest \ {Min(rest)}]
NextBack(rest)  == IF rest = {} THEN [y |-> 0, rest |-> {}] ELSE [y |-> Max(rest), rest |-> rest \ {Max(rest)}]

\* the provided iterator methods are defined by the two primitive steps: nth(k) discards k elements from the front and
\* yields the next one (nothing, and an exhausted iterator, when fewer than k + 1 remain); nth_back likewise from the back
RECURSIVE Nth(_, _)
Nth(rest, k) == IF k = 0 THEN NextFront(rest) ELSE Nth(NextFront(rest).rest, k - 1)
RECURSIVE NthBack(_, _)
NthBack(rest, k) == IF k = 0 THEN NextBack(rest) ELSE NthBack(NextBack(rest).rest, k - 1)
RECURSIVE Descending(_)
Descending(S) == IF S = {} THEN <<>> ELSE <<Max(S)>> \o Descending(S \ {Max(S)})
\* what the consuming adaptors must report for the remaining set: collect, rev().collect, count, last, min, max
Consumers(rest) == [fwd |-> Ascending(rest), bwd |-> Descending(rest), count |-> Cardinality(rest),
                    last |-> IF rest = {} THEN 0 ELSE Max(rest), min |-> IF rest = {} THEN 0 ELSE Min(rest),
                    max |-> IF rest = {} THEN 0 ELSE Max(rest)]

\* Display of a set: "a, b, c"
RECURSIVE Join(_, _)
Join(names, sep) == IF names = <<>> THEN <<>>
                    ELSE IF Len(names) = 1 THEN <<names[1]>>
                    ELSE <<names[1], sep>> \o Join(Tail(names), sep)
Names(S) == [i \in 1..Cardinality(S) |-> KindNames[Ascending(S)[i]]]
Display(S) == Join(Names(S), ", ")

\* "nothing" | single kind | "a, b or c" | "anything"
Junction(S, word) ==
  IF S = K THEN <<"anything">>
  ELSE IF S = {} THEN <<"nothing">>
  ELSE LET ns == Names(S) n == Len(ns) IN
       IF n = 1 THEN <<ns[1]>>
       ELSE Join(SubSeq(ns, 1, n - 1), ", ") \o <<word, ns[n]>>
Disjunction(S) == Junction(S, " or ")
Conjunction(S) == Junction(S, " and ")
=============================================================================
