------------------------------ MODULE SerdeSer ------------------------------
(***************************************************************************)
(* json_syntax::Serializer: the encoding of serde data-model terms as JSON  *)
(* values (C16, C17).  A term is a tagged record:                            *)
(*   unit, bool, int (decimal digits), float (class), char, str, bytes,      *)
(*   none, some(x), unit_struct, unit_variant(name), newtype_struct(x),      *)
(*   newtype_variant(name, x), seq / tuple / tuple_struct (xs),              *)
(*   tuple_variant(name, xs), map (kvs), struct (fields),                    *)
(*   struct_variant(name, fields).                                           *)
(* The encoding is the serde_json-compatible one (externally tagged enums,   *)
(* options as null / the value, non-finite floats as null), with the         *)
(* documented refinements of this crate:                                     *)
(*  - maps and structs are built with Object::insert: a repeated key keeps   *)
(*    its FIRST position and its LAST value (C17);                           *)
(*  - map keys may be strings, chars, integers, unit variants or newtype     *)
(*    structs of those; any other key is the error NonStringKey;             *)
(*  - the private number token: a map / struct whose FIRST key is            *)
(*    "$serde_json::private::Number" holding a string that is a valid JSON   *)
(*    number denotes that number verbatim (this is how Value::Number with a  *)
(*    fraction travels through serde); anything else after that key is the  *)
(*    error MalformedHighPrecisionNumber.                                    *)
(* Finite floats are encoded by a spelling that must round to the float; the *)
(* spelling itself is not specified here (FloatSp is a parameter: a function *)
(* from float terms to spellings, supplied and certified per trace).         *)
(***************************************************************************)
EXTENDS JsonValue, JsonObject, JsonParser

\* "$serde_json::private::Number"
Token == <<36, 115, 101, 114, 100, 101, 95, 106, 115, 111, 110, 58, 58, 112, 114, 105, 118, 97, 116, 101, 58, 58, 78, 117, 109, 98, 101, 114>>

Ok(v)  == [ok |-> TRUE, v |-> v]
Err(e) == [ok |-> FALSE, err |-> e]

ValidNumber(s) == s # <<>> /\ LET st == Run(s, Strict) IN st.mode = "done" /\ st.val = VNum(s)

RECURSIVE KeyEncode(_)
KeyEncode(k) ==
  CASE k.d = "str" -> Ok(k.s)
    [] k.d = "char" -> Ok(<<k.c>>)
    [] k.d = "int" -> Ok(k.n)
    [] k.d = "unit_variant" -> Ok(k.name)
    [] k.d = "newtype_struct" -> KeyEncode(k.x)
    [] OTHER -> Err("non_string_key")

RECURSIVE Encode(_, _)
RECURSIVE EncodeAll(_, _, _, _)
RECURSIVE EntriesFold(_, _, _, _, _)

\* encode xs[i..] and append to acc; first error wins
EncodeAll(xs, i, acc, F) ==
  IF i > Len(xs) THEN Ok(acc)
  ELSE LET r == Encode(xs[i], F) IN IF r.ok THEN EncodeAll(xs, i + 1, Append(acc, r.v), F) ELSE r

\* the builder of maps and structs: kvs = <<key term, value term>> pairs.
\* withToken: the number-token handshake applies (maps and structs, not struct variants)
EntriesFold(kvs, i, st, withToken, F) ==
  IF i > Len(kvs)
  THEN IF st.mode = "num" THEN Ok(VNum(st.n)) ELSE Ok(VObj(st.entries))
  ELSE IF st.mode = "num" THEN Err("malformed_number")
  ELSE LET ke == KeyEncode(kvs[i][1]) val == kvs[i][2] IN
       IF ~ke.ok THEN ke
       ELSE IF withToken /\ st.entries = <<>> /\ ke.v = Token
            THEN IF val.d = "str" /\ ValidNumber(val.s)
                 THEN EntriesFold(kvs, i + 1, [mode |-> "num", n |-> val.s, entries |-> <<>>], withToken, F)
                 ELSE Err("malformed_number")
       ELSE LET ve == Encode(val, F) IN
            IF ~ve.ok THEN ve
            ELSE EntriesFold(kvs, i + 1, [st EXCEPT !.entries = LInsert(@, ke.v, ve.v)], withToken, F)

EmptyBuilder == [mode |-> "obj", n |-> <<>>, entries |-> <<>>]
StrKey(name) == [d |-> "str", s |-> name]
FieldPairs(fields) == [i \in 1..Len(fields) |-> <<StrKey(fields[i][1]), fields[i][2]>>]
Wrap(name, r) == IF r.ok THEN Ok(VObj(<<Entry(name, r.v)>>)) ELSE r

Encode(d, F) ==
  CASE d.d \in {"unit", "none", "unit_struct"} -> Ok(VNull)
    [] d.d = "bool" -> Ok(VBool(d.b))
    [] d.d = "int" -> Ok(VNum(d.n))
    [] d.d = "float" -> IF d.cls = "finite" THEN Ok(VNum(F[d])) ELSE Ok(VNull)
    [] d.d = "char" -> Ok(VStr(<<d.c>>))
    [] d.d = "str" -> Ok(VStr(d.s))
    [] d.d = "bytes" -> Ok(VArr([i \in 1..Len(d.bs) |-> VNum(d.bs[i])]))
    [] d.d \in {"some", "newtype_struct"} -> Encode(d.x, F)
    [] d.d = "unit_variant" -> Ok(VStr(d.name))
    [] d.d = "newtype_variant" -> Wrap(d.name, Encode(d.x, F))
    [] d.d \in {"seq", "tuple", "tuple_struct"} -> LET r == EncodeAll(d.xs, 1, <<>>, F) IN IF r.ok THEN Ok(VArr(r.v)) ELSE r
    [] d.d = "tuple_variant" -> LET r == EncodeAll(d.xs, 1, <<>>, F) IN Wrap(d.name, IF r.ok THEN Ok(VArr(r.v)) ELSE r)
    [] d.d = "map" -> EntriesFold(d.kvs, 1, EmptyBuilder, TRUE, F)
    [] d.d = "struct" -> EntriesFold(FieldPairs(d.fields), 1, EmptyBuilder, TRUE, F)
    [] d.d = "struct_variant" -> Wrap(d.name, EntriesFold(FieldPairs(d.fields), 1, EmptyBuilder, FALSE, F))

NoFloats == [x \in {} |-> <<>>]

(***************************************************************************)
(* Value's own Serialize (C17): a Value is presented to a serializer as     *)
(*   null -> unit, booleans, strings, arrays -> seq, objects -> map with     *)
(*   string keys; numbers: with a decimal point -> the number-token struct   *)
(*   (verbatim); otherwise as i64 / u64 when representable, else the error   *)
(*   "number too large" (known finding K1 of C17).                           *)
(* SerValue(v) is the expected result of serializing v with the crate's own  *)
(* serializer: v itself, with duplicate keys collapsed.                      *)
(***************************************************************************)
RECURSIVE SerValue(_)
SerValue(v) ==
  CASE v.t = "arr" -> VArr([i \in 1..Len(v.items) |-> SerValue(v.items[i])])
    [] v.t = "obj" -> LET RECURSIVE fold(_, _)
                          fold(i, acc) == IF i > Len(v.entries) THEN acc
                                          ELSE fold(i + 1, LInsert(acc, v.entries[i].k, SerValue(v.entries[i].v)))
                      IN VObj(fold(1, <<>>))
    [] OTHER -> v

(***************************************************************************)
(* Value's own Deserialize (C17): the ValueVisitor as a function of the      *)
(* term a self-describing deserializer presents.                             *)
(*   unit / none -> null; bool; integers -> numbers (decimal); finite floats  *)
(*   -> a number denoting that float (spelling F), non-finite -> null;        *)
(*   char / str -> string; some(x) -> x; seq / tuple -> array;                *)
(*   map: keys must be strings; a FIRST key equal to the number token makes   *)
(*   the map denote the number spelled by its (string) value; otherwise an    *)
(*   object built with insert (a repeated key keeps its first position and    *)
(*   its last value); anything else (bytes, newtype structs, enums) is an     *)
(*   "invalid type" error.                                                    *)
(***************************************************************************)
RECURSIVE DeValue(_, _)
RECURSIVE DeAll(_, _, _, _)
RECURSIVE DeMap(_, _, _, _)
DeAll(xs, i, acc, F) == IF i > Len(xs) THEN Ok(acc)
                        ELSE LET r == DeValue(xs[i], F) IN IF r.ok THEN DeAll(xs, i + 1, Append(acc, r.v), F) ELSE r
KeyString(k) == IF k.d = "str" THEN Ok(k.s) ELSE IF k.d = "char" THEN Ok(<<k.c>>) ELSE Err("invalid_type")
DeMap(kvs, i, acc, F) ==
  IF i > Len(kvs) THEN Ok(VObj(acc))
  ELSE LET k == KeyString(kvs[i][1]) IN
       IF ~k.ok THEN k
       ELSE LET v == DeValue(kvs[i][2], F) IN IF ~v.ok THEN v ELSE DeMap(kvs, i + 1, LInsert(acc, k.v, v.v), F)
DeValue(d, F) ==
  CASE d.d \in {"unit", "none"} -> Ok(VNull)
    [] d.d = "bool" -> Ok(VBool(d.b))
    [] d.d = "int" -> Ok(VNum(d.n))
    [] d.d = "float" -> IF d.cls = "finite" THEN Ok(VNum(F[d])) ELSE Ok(VNull)
    [] d.d = "char" -> Ok(VStr(<<d.c>>))
    [] d.d = "str" -> Ok(VStr(d.s))
    [] d.d = "some" -> DeValue(d.x, F)
    [] d.d \in {"seq", "tuple"} -> LET r == DeAll(d.xs, 1, <<>>, F) IN IF r.ok THEN Ok(VArr(r.v)) ELSE r
    [] d.d = "map" ->
         IF d.kvs = <<>> THEN Ok(VObj(<<>>))
         ELSE LET k1 == KeyString(d.kvs[1][1]) IN
              IF ~k1.ok THEN k1
              ELSE IF k1.v = Token
                   THEN LET val == d.kvs[1][2] IN
                        IF val.d \notin {"str", "char"} THEN Err("invalid_type")
                        ELSE IF ValidNumber(IF val.d = "str" THEN val.s ELSE <<val.c>>) THEN Ok(VNum(IF val.d = "str" THEN val.s ELSE <<val.c>>))
                        ELSE Err("invalid_number")
              ELSE DeMap(d.kvs, 1, <<>>, F)
    [] OTHER -> Err("invalid_type")
=============================================================================
