----------------------------- MODULE JsonGrammar -----------------------------
(***************************************************************************)
(* The DECLARATIVE side of the parser specification: the RFC 8259 grammar   *)
(* written production by production as predicates over character           *)
(* sequences ("w derives from the nonterminal"), and the value a text       *)
(* denotes.  Nothing here is an automaton: concatenations are existential   *)
(* splits of the sequence, repetitions are recursion on the remainder.      *)
(*                                                                          *)
(* It exists to validate JsonParser (the operational, implementation-shaped *)
(* automaton that is bound to the code) inside TLC: the tree models check   *)
(*     AcceptIffGrammar   Run(w, o) accepts  <=>  GText(w, o)               *)
(*     ValueIsDenotation  ... and then its value is DText(w, o)             *)
(* for every enumerated input w and option record o.                        *)
(*                                                                          *)
(* RFC 8259:                                                                *)
(*   JSON-text = ws value ws                                                *)
(*   value = false / null / true / object / array / number / string         *)
(*   object = begin-object [ member *( value-separator member ) ] end-object*)
(*   member = string name-separator value                                   *)
(*   array  = begin-array [ value *( value-separator value ) ] end-array    *)
(*   (each structural character is  ws %xNN ws)                             *)
(*   number = [ minus ] int [ frac ] [ exp ]                                *)
(*   string = quotation-mark *char quotation-mark                           *)
(*   char = unescaped / escape ( " \ / b f n r t / uXXXX )                  *)
(* Section 7 leaves the meaning of \u escapes that denote unpaired          *)
(* surrogates open ("any \uXXXX escape is syntactically allowed"); the      *)
(* crate's documented reading is: strict mode rejects them, each lenient    *)
(* option turns its own kind into U+FFFD (C12).  `o` is that option record. *)
(***************************************************************************)
EXTENDS Integers, Sequences, Chars, JsonValue

WsChars == {32, 9, 10, 13}
GWs(w) == \A i \in 1..Len(w) : w[i] \in WsChars

\* w = ws x ws with x neither starting nor ending with whitespace: x is unique
FirstNonWs(w) == IF \E i \in 1..Len(w) : w[i] \notin WsChars
                 THEN CHOOSE i \in 1..Len(w) : w[i] \notin WsChars /\ \A j \in 1..(i - 1) : w[j] \in WsChars
                 ELSE Len(w) + 1
LastNonWs(w)  == IF \E i \in 1..Len(w) : w[i] \notin WsChars
                 THEN CHOOSE i \in 1..Len(w) : w[i] \notin WsChars /\ \A j \in (i + 1)..Len(w) : w[j] \in WsChars
                 ELSE 0
Trim(w) == SubSeq(w, FirstNonWs(w), LastNonWs(w))
From(w, i) == SubSeq(w, i, Len(w))

-----------------------------------------------------------------------------
\* number = [ minus ] int [ frac ] [ exp ]
GDigits(w) == Len(w) >= 1 /\ \A i \in 1..Len(w) : w[i] \in 48..57
GInt(w)    == w = <<48>> \/ (GDigits(w) /\ w[1] \in 49..57)          \* zero / ( digit1-9 *DIGIT )
GFrac(w)   == Len(w) >= 2 /\ w[1] = 46 /\ GDigits(Tail(w))           \* decimal-point 1*DIGIT
GExp(w)    == /\ Len(w) >= 2 /\ w[1] \in {69, 101}                   \* e [ minus / plus ] 1*DIGIT
              /\ \/ GDigits(Tail(w))
                 \/ (w[2] \in {43, 45} /\ GDigits(From(w, 3)))
GNumber(w) == \E a \in 0..1 : \E b \in a..Len(w) : \E c \in b..Len(w) :
                 /\ a = 1 => (Len(w) >= 1 /\ w[1] = 45)
                 /\ GInt(SubSeq(w, a + 1, b))
                 /\ (b = c \/ GFrac(SubSeq(w, b + 1, c)))
                 /\ (c = Len(w) \/ GExp(From(w, c + 1)))

-----------------------------------------------------------------------------
\* string = quotation-mark *char quotation-mark
IsUnescaped(c) == c \in 32..33 \/ c \in 35..91 \/ c \in 93..1114111
RECURSIVE GChars(_, _)
GChars(w, i) ==      \* w[i..] derives *char
  \/ i > Len(w)
  \/ (IsUnescaped(w[i]) /\ GChars(w, i + 1))
  \/ (w[i] = 92 /\ i + 1 <= Len(w) /\ w[i + 1] \in EscLetters /\ GChars(w, i + 2))
  \/ (w[i] = 92 /\ i + 5 <= Len(w) /\ w[i + 1] = 117
      /\ (\A k \in 2..5 : IsHexDigit(w[i + k])) /\ GChars(w, i + 6))

GStringSyntax(w) == Len(w) >= 2 /\ w[1] = 34 /\ w[Len(w)] = 34 /\ GChars(SubSeq(w, 2, Len(w) - 1), 1)

\* the elements of a string body: what each char denotes, and whether it was written as a \u escape
GHex4(w, i) == HexVal(w[i]) * 4096 + HexVal(w[i + 1]) * 256 + HexVal(w[i + 2]) * 16 + HexVal(w[i + 3])
RECURSIVE Elems(_, _)
Elems(w, i) == IF i > Len(w) THEN <<>>
               ELSE IF w[i] # 92 THEN <<[u |-> FALSE, cu |-> w[i]]>> \o Elems(w, i + 1)
               ELSE IF w[i + 1] = 117 THEN <<[u |-> TRUE, cu |-> GHex4(w, i + 2)]>> \o Elems(w, i + 6)
               ELSE <<[u |-> FALSE, cu |-> EscValue(w[i + 1])]>> \o Elems(w, i + 2)

\* section 7 + C12: a \u high surrogate IMMEDIATELY followed by a \u low surrogate is one scalar;
\* any other \u surrogate is unpaired: an error, or U+FFFD under the option covering its kind
NoStr == [ok |-> FALSE, s |-> <<>>]
RECURSIVE GScalars(_, _, _)
GScalars(es, i, o) ==
  IF i > Len(es) THEN [ok |-> TRUE, s |-> <<>>]
  ELSE LET e == es[i] IN
       IF e.u /\ IsHigh(e.cu)
       THEN IF i < Len(es) /\ es[i + 1].u /\ IsLow(es[i + 1].cu)
            THEN LET r == GScalars(es, i + 2, o) IN
                 IF r.ok THEN [ok |-> TRUE, s |-> <<Combine(e.cu, es[i + 1].cu)>> \o r.s] ELSE NoStr
            ELSE IF o.trunc
                 THEN LET r == GScalars(es, i + 1, o) IN IF r.ok THEN [ok |-> TRUE, s |-> <<REPL>> \o r.s] ELSE NoStr
                 ELSE NoStr
       ELSE IF e.u /\ IsLow(e.cu)
       THEN IF o.inval
            THEN LET r == GScalars(es, i + 1, o) IN IF r.ok THEN [ok |-> TRUE, s |-> <<REPL>> \o r.s] ELSE NoStr
            ELSE NoStr
       ELSE LET r == GScalars(es, i + 1, o) IN IF r.ok THEN [ok |-> TRUE, s |-> <<e.cu>> \o r.s] ELSE NoStr

StrBody(w) == SubSeq(w, 2, Len(w) - 1)
GString(w, o) == GStringSyntax(w) /\ GScalars(Elems(StrBody(w), 1), 1, o).ok
DString(w, o) == GScalars(Elems(StrBody(w), 1), 1, o).s

-----------------------------------------------------------------------------
LitNull  == <<110, 117, 108, 108>>
LitTrue  == <<116, 114, 117, 101>>
LitFalse == <<102, 97, 108, 115, 101>>

RECURSIVE GValue(_, _), GElement(_, _), GElements(_, _), GMember(_, _), GMembers(_, _)
\* value (no surrounding whitespace)
GValue(w, o) ==
  \/ w = LitNull \/ w = LitTrue \/ w = LitFalse
  \/ GNumber(w)
  \/ GString(w, o)
  \/ (Len(w) >= 2 /\ w[1] = LBRACK /\ w[Len(w)] = RBRACK
      /\ LET inner == SubSeq(w, 2, Len(w) - 1) IN GWs(inner) \/ GElements(inner, o))
  \/ (Len(w) >= 2 /\ w[1] = LBRACE /\ w[Len(w)] = RBRACE
      /\ LET inner == SubSeq(w, 2, Len(w) - 1) IN GWs(inner) \/ GMembers(inner, o))
\* ws value ws
GElement(w, o) == LET x == Trim(w) IN x # <<>> /\ GValue(x, o)
\* element *( "," element )
GElements(w, o) ==
  \/ GElement(w, o)
  \/ \E k \in 1..Len(w) : w[k] = COMMA /\ GElement(SubSeq(w, 1, k - 1), o) /\ GElements(From(w, k + 1), o)
\* ws string ws ":" element
GMember(w, o) ==
  \E k \in 1..Len(w) : /\ w[k] = COLON
                       /\ LET key == Trim(SubSeq(w, 1, k - 1)) IN key # <<>> /\ GString(key, o)
                       /\ GElement(From(w, k + 1), o)
GMembers(w, o) ==
  \/ GMember(w, o)
  \/ \E k \in 1..Len(w) : w[k] = COMMA /\ GMember(SubSeq(w, 1, k - 1), o) /\ GMembers(From(w, k + 1), o)

\* JSON-text = ws value ws
GText(w, o) == GElement(w, o)

-----------------------------------------------------------------------------
(***************************************************************************)
(* Denotation (defined on texts the grammar derives).  The grammar is       *)
(* unambiguous, so the split chosen by CHOOSE is the only one.              *)
(***************************************************************************)
RECURSIVE DValue(_, _), DElements(_, _), DMember(_, _), DMembers(_, _)
DValue(w, o) ==
  IF w = LitNull THEN VNull
  ELSE IF w = LitTrue THEN VBool(TRUE)
  ELSE IF w = LitFalse THEN VBool(FALSE)
  ELSE IF w[1] = 34 THEN VStr(DString(w, o))
  ELSE IF w[1] = LBRACK
       THEN LET inner == SubSeq(w, 2, Len(w) - 1) IN VArr(IF GWs(inner) THEN <<>> ELSE DElements(inner, o))
  ELSE IF w[1] = LBRACE
       THEN LET inner == SubSeq(w, 2, Len(w) - 1) IN VObj(IF GWs(inner) THEN <<>> ELSE DMembers(inner, o))
  ELSE VNum(w)          \* numbers keep their spelling
DElements(w, o) ==
  IF GElement(w, o) THEN <<DValue(Trim(w), o)>>
  ELSE LET k == CHOOSE k \in 1..Len(w) :
                   w[k] = COMMA /\ GElement(SubSeq(w, 1, k - 1), o) /\ GElements(From(w, k + 1), o)
       IN <<DValue(Trim(SubSeq(w, 1, k - 1)), o)>> \o DElements(From(w, k + 1), o)
DMember(w, o) ==
  LET k == CHOOSE k \in 1..Len(w) :
              /\ w[k] = COLON
              /\ LET key == Trim(SubSeq(w, 1, k - 1)) IN key # <<>> /\ GString(key, o)
              /\ GElement(From(w, k + 1), o)
  IN Entry(DString(Trim(SubSeq(w, 1, k - 1)), o), DValue(Trim(From(w, k + 1)), o))
DMembers(w, o) ==
  IF GMember(w, o) THEN <<DMember(w, o)>>
  ELSE LET k == CHOOSE k \in 1..Len(w) :
                   w[k] = COMMA /\ GMember(SubSeq(w, 1, k - 1), o) /\ GMembers(From(w, k + 1), o)
       IN <<DMember(SubSeq(w, 1, k - 1), o)>> \o DMembers(From(w, k + 1), o)

DText(w, o) == DValue(Trim(w), o)
=============================================================================
