----------------------------- MODULE JsonValue -----------------------------
(***************************************************************************)
(* The abstract JSON value model of the crate (RFC 8259 section 3 with the *)
(* refinements documented by json-syntax):                                  *)
(*   - numbers are kept in their lexical form (a sequence of characters),   *)
(*   - strings and keys are sequences of Unicode scalar values,             *)
(*   - an object is a SEQUENCE of key/value entries: order matters and      *)
(*     duplicate keys are preserved.                                        *)
(* Values are tagged records with a distinct payload field per tag, so two  *)
(* values of different kinds are simply unequal.                            *)
(***************************************************************************)
EXTENDS Integers, Sequences, FiniteSets

VNull     == [t |-> "null"]
VBool(b)  == [t |-> "bool", b |-> b]
VNum(s)   == [t |-> "num", num |-> s]
VStr(s)   == [t |-> "str", str |-> s]
VArr(xs)  == [t |-> "arr", items |-> xs]
VObj(es)  == [t |-> "obj", entries |-> es]
Entry(k, v) == [k |-> k, v |-> v]

IsContainer(v) == v.t \in {"arr", "obj"}

Kinds == <<"null", "boolean", "number", "string", "array", "object">>
KindOf(v) == CASE v.t = "null" -> "null" [] v.t = "bool" -> "boolean" [] v.t = "num" -> "number"
               [] v.t = "str" -> "string" [] v.t = "arr" -> "array" [] v.t = "obj" -> "object"

RECURSIVE SumSeq(_)
SumSeq(s) == IF s = <<>> THEN 0 ELSE Head(s) + SumSeq(Tail(s))

RECURSIVE Concat(_)
Concat(ss) == IF ss = <<>> THEN <<>> ELSE Head(ss) \o Concat(Tail(ss))

(***************************************************************************)
(* Fragments.  The fragments of a value, in pre-order: every value, every   *)
(* object entry and every key is one fragment; an entry is followed by its  *)
(* key and then by the fragments of its value.                              *)
(***************************************************************************)
RECURSIVE NFrag(_)
NFrag(v) == CASE v.t = "arr" -> 1 + SumSeq([i \in 1..Len(v.items) |-> NFrag(v.items[i])])
              [] v.t = "obj" -> 1 + SumSeq([i \in 1..Len(v.entries) |-> 2 + NFrag(v.entries[i].v)])
              [] OTHER -> 1

\* number of *value* fragments (the crate's `volume()`)
RECURSIVE NValues(_)
NValues(v) == CASE v.t = "arr" -> 1 + SumSeq([i \in 1..Len(v.items) |-> NValues(v.items[i])])
                [] v.t = "obj" -> 1 + SumSeq([i \in 1..Len(v.entries) |-> NValues(v.entries[i].v)])
                [] OTHER -> 1

FragV(v)    == [fk |-> "value", val |-> v, vol |-> NFrag(v)]
FragE(e)    == [fk |-> "entry", ent |-> e, vol |-> 2 + NFrag(e.v)]
FragK(k)    == [fk |-> "key", key |-> k, vol |-> 1]

RECURSIVE Fragments(_)
Fragments(v) ==
  <<FragV(v)>> \o
  CASE v.t = "arr" -> Concat([i \in 1..Len(v.items) |-> Fragments(v.items[i])])
    [] v.t = "obj" -> Concat([i \in 1..Len(v.entries) |->
                          <<FragE(v.entries[i]), FragK(v.entries[i].k)>> \o Fragments(v.entries[i].v)])
    [] OTHER -> <<>>

(***************************************************************************)
(* Key lookups: what a linear scan of the entries returns.                  *)
(***************************************************************************)
IndexesOf(es, k) == LET RECURSIVE go(_)
                        go(i) == IF i > Len(es) THEN <<>>
                                 ELSE (IF es[i].k = k THEN <<i>> ELSE <<>>) \o go(i + 1)
                    IN go(1)
KeysOf(es) == {es[i].k : i \in 1..Len(es)}

(***************************************************************************)
(* Equality up to permutation of object entries (C15).                      *)
(* Declarative: two objects are unordered-equal iff a bijection between     *)
(* their entry positions exists that matches keys and (recursively)         *)
(* unordered-equal values.  Arrays are compared position-wise.              *)
(***************************************************************************)
Bijections(n) == {f \in [1..n -> 1..n] : \A i, j \in 1..n : f[i] = f[j] => i = j}

RECURSIVE UnorderedEq(_, _)
UnorderedEq(a, b) ==
  IF a.t # b.t THEN FALSE
  ELSE CASE a.t = "arr" -> Len(a.items) = Len(b.items)
                           /\ \A i \in 1..Len(a.items) : UnorderedEq(a.items[i], b.items[i])
         [] a.t = "obj" -> Len(a.entries) = Len(b.entries)
                           /\ \E f \in Bijections(Len(a.entries)) :
                                \A i \in 1..Len(a.entries) :
                                   a.entries[i].k = b.entries[f[i]].k
                                   /\ UnorderedEq(a.entries[i].v, b.entries[f[i]].v)
         [] OTHER -> a = b

(***************************************************************************)
(* An equivalent executable formulation for large values: greedy one-to-one *)
(* matching.  Because UnorderedEq is an equivalence relation, matching each *)
(* entry of `a` with the first still unmatched equivalent entry of `b`      *)
(* succeeds iff a bijection exists.                                         *)
(***************************************************************************)
RECURSIVE MultisetEq(_, _)
MultisetEq(a, b) ==
  IF a.t # b.t THEN FALSE
  ELSE CASE a.t = "arr" -> Len(a.items) = Len(b.items)
                           /\ \A i \in 1..Len(a.items) : MultisetEq(a.items[i], b.items[i])
         [] a.t = "obj" ->
              LET n == Len(a.entries)
                  RECURSIVE match(_, _)
                  \* i: next entry of a to match; used: set of matched positions of b
                  match(i, used) ==
                    IF i > n THEN TRUE
                    ELSE LET cands == {j \in 1..n : j \notin used
                                          /\ a.entries[i].k = b.entries[j].k
                                          /\ MultisetEq(a.entries[i].v, b.entries[j].v)}
                         IN IF cands = {} THEN FALSE
                            ELSE match(i + 1, used \cup {CHOOSE j \in cands : \A j2 \in cands : j <= j2})
              IN Len(b.entries) = n /\ match(1, {})
         [] OTHER -> a = b

(***************************************************************************)
(* Bounded value generators for the model-checking instances.               *)
(***************************************************************************)
SeqsUpTo(S, n) == UNION {[1..m -> S] : m \in 0..n}

RECURSIVE Values(_, _, _, _, _)
\* depth d, at most w children, keys K, scalar leaves L
Values(d, w, K, L, dummy) ==
  IF d = 0 THEN L
  ELSE LET sub == Values(d - 1, w, K, L, dummy)
       IN L \cup {VArr(xs) : xs \in SeqsUpTo(sub, w)}
            \cup {VObj(es) : es \in SeqsUpTo({Entry(k, v) : k \in K, v \in sub}, w)}
=============================================================================
