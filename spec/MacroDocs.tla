------------------------------ MODULE MacroDocs ------------------------------
(***************************************************************************)
(* Decorated documents: a JSON document together with the way it is written *)
(* as a json! literal (trailing commas, literal / parenthesized / expression  *)
(* keys, literal or expression values, suffixed integer literals).           *)
(*   ValueOf(d)  the JSON value it denotes                                   *)
(*   Tokens(d)   the token tree the macro sees                               *)
(*   Text(d)     the JSON text of the same document                          *)
(***************************************************************************)
EXTENDS JsonMacro, JsonPrinter

DNull == [dt |-> "null"]  DTrue == [dt |-> "true"]  DFalse == [dt |-> "false"]
DStr(s) == [dt |-> "str", s |-> s]
DInt(n) == [dt |-> "int", n |-> n, sfx |-> <<>>]     \* n: decimal digits, possibly with a leading minus
DIntS(n, sfx) == [dt |-> "int", n |-> n, sfx |-> sfx] \* with a Rust type suffix such as u64 / i8 (not part of the JSON text)
DFloat(sp) == [dt |-> "float", sp |-> sp]
DExpr(x) == [dt |-> "expr", x |-> x]               \* the scalar x written as a Rust expression: Value::from(..)
DArr(items, trail) == [dt |-> "arr", items |-> items, trail |-> trail]
DObj(entries, trail) == [dt |-> "obj", entries |-> entries, trail |-> trail]
DEntry(kf, k, v) == [kf |-> kf, k |-> k, v |-> v]

RECURSIVE ValueOf(_)
ValueOf(d) ==
  CASE d.dt = "null" -> VNull [] d.dt = "true" -> VBool(TRUE) [] d.dt = "false" -> VBool(FALSE)
    [] d.dt = "str" -> VStr(d.s) [] d.dt = "int" -> VNum(d.n) [] d.dt = "float" -> VNum(d.sp)
    [] d.dt = "expr" -> ValueOf(d.x)
    [] d.dt = "arr" -> VArr([i \in 1..Len(d.items) |-> ValueOf(d.items[i])])
    [] d.dt = "obj" -> VObj([i \in 1..Len(d.entries) |-> Entry(d.entries[i].k, ValueOf(d.entries[i].v))])

Tok(k) == [k |-> k]
Comma == Tok("comma")  Colon == Tok("colon")
RECURSIVE JoinToks(_, _)
JoinToks(groups, trail) == IF groups = <<>> THEN <<>>
                           ELSE IF Len(groups) = 1 THEN groups[1] \o (IF trail THEN <<Comma>> ELSE <<>>)
                           ELSE groups[1] \o <<Comma>> \o JoinToks(Tail(groups), trail)

RECURSIVE Tokens(_)
KeyTokens(e) == CASE e.kf = "lit" -> <<[k |-> "lit", v |-> VStr(e.k)]>>
                  [] e.kf = "paren" -> <<[k |-> "paren", ts |-> <<[k |-> "ktok", key |-> e.k]>>]>>
                  [] e.kf = "expr" -> <<[k |-> "ktok", key |-> e.k], [k |-> "ktok", key |-> <<>>], [k |-> "paren", ts |-> <<>>]>>
Tokens(d) ==
  CASE d.dt \in {"null", "true", "false"} -> Tok(d.dt)
    [] d.dt \in {"str", "int", "float"} -> [k |-> "lit", v |-> ValueOf(d)]
    [] d.dt = "expr" -> [k |-> "expr", v |-> ValueOf(d.x)]
    [] d.dt = "arr" -> [k |-> "bracket", ts |-> JoinToks([i \in 1..Len(d.items) |-> <<Tokens(d.items[i])>>], d.trail)]
    [] d.dt = "obj" -> [k |-> "brace", ts |-> JoinToks([i \in 1..Len(d.entries) |->
                           KeyTokens(d.entries[i]) \o <<Colon, Tokens(d.entries[i].v)>>], d.trail)]

Text(d) == Render(ValueOf(d), Compact)

=============================================================================
