------------------------------- MODULE SerdeDe -------------------------------
(***************************************************************************)
(* `impl Deserializer for Value` as a request / response protocol (the      *)
(* mechanism behind C16 / C17): for a value and a `deserialize_*` request,  *)
(* which `visit_*` method of the visitor is called (with what), or which    *)
(* error class is returned.  Sequences and maps are handed to the visitor   *)
(* as accessors from which it pulls elements; after the visitor returns,    *)
(* elements left over are an `invalid length` error.                        *)
(*                                                                          *)
(*   Respond(v, req, pulls) -> [r |-> "visit", m |-> method, ...]           *)
(*                             or [r |-> "err", e |-> class]                *)
(* pulls: how many elements the visitor takes from a sequence / map         *)
(* accessor (99 = all).                                                     *)
(***************************************************************************)
EXTENDS JsonValue, Decimal

IntRequests == {"i8", "i16", "i32", "i64", "i128", "u8", "u16", "u32", "u64", "u128"}
NumRequests == IntRequests \cup {"f32", "f64"}
StrRequests == {"char", "str", "string", "identifier"}
SeqRequests == {"seq", "tuple", "tuple_struct"}

Visit(m) == [r |-> "visit", m |-> m]
ErrR(e) == [r |-> "err", e |-> e]

\* numbers answer every request with their own `deserialize_any`: u64 if the spelling is a
\* non-negative integer below 2^64, else i64 if it is an integer in range, else f64
HasFracOrExp(sp) == \E i \in 1..Len(sp) : sp[i] \in {46, 69, 101}
NumberVisit(sp) ==
  LET d == ParseDec(sp) n == FromDigits(d.digits) IN
  IF ~HasFracOrExp(sp) /\ ~(sp[1] = 45) /\ Cmp(n, Pow2(64)) < 0 THEN [r |-> "visit", m |-> "u64", n |-> sp]
  ELSE IF ~HasFracOrExp(sp) /\ (IF d.neg THEN Cmp(n, Pow2(63)) <= 0 ELSE Cmp(n, Pow2(63)) < 0)
       THEN [r |-> "visit", m |-> "i64", n |-> (IF d.digits = <<>> THEN <<48>> ELSE sp)]
  ELSE Visit("f64")

Min(a, b) == IF a < b THEN a ELSE b
\* the visitor pulls `pulls` elements; left-overs are an error raised after it returns
SeqVisit(n, pulls) == IF Min(pulls, n) < n THEN ErrR("invalid_length") ELSE [r |-> "visit", m |-> "seq", pulled |-> n]
MapVisit(n, pulls) == IF Min(pulls, n) < n THEN ErrR("invalid_length") ELSE [r |-> "visit", m |-> "map", pulled |-> n]

\* the sequence / map access handed to the visitor announces (size_hint) exactly the number of elements / entries left:
\* after the visitor pulled k of n, `n - k`.  No listed property depends on it (a hint is only a hint): the harness probes it
\* on every value the visitor replay builds and reports deviations under the extension aspect X03.size_hint.
AnnouncedSize(n, k) == n - Min(k, n)

Respond(v, req, pulls) ==
  IF req = "ignored_any" THEN Visit("unit")
  ELSE IF req = "newtype_struct" THEN Visit("newtype_struct")
  ELSE IF req = "option" THEN (IF v.t = "null" THEN Visit("none") ELSE Visit("some"))
  ELSE IF req = "enum" THEN
       (IF v.t = "str" THEN [r |-> "visit", m |-> "enum", variant |-> v.str, payload |-> FALSE]
        ELSE IF v.t = "obj" THEN (IF Len(v.entries) = 1 THEN [r |-> "visit", m |-> "enum", variant |-> v.entries[1].k, payload |-> TRUE]
                                  ELSE ErrR("invalid_value"))
        ELSE ErrR("invalid_type"))
  ELSE CASE v.t = "null" -> IF req \in {"any", "unit", "unit_struct"} THEN Visit("unit") ELSE ErrR("invalid_type")
         [] v.t = "bool" -> IF req \in {"any", "bool"} THEN [r |-> "visit", m |-> "bool", b |-> v.b] ELSE ErrR("invalid_type")
         [] v.t = "num"  -> IF req \in NumRequests \cup {"any"} THEN NumberVisit(v.num) ELSE ErrR("invalid_type")
         [] v.t = "str"  -> IF req \in StrRequests \cup {"any", "bytes", "byte_buf"} THEN [r |-> "visit", m |-> "string", s |-> v.str]
                            ELSE ErrR("invalid_type")
         [] v.t = "arr"  -> IF req \in SeqRequests \cup {"any", "bytes", "byte_buf", "struct"} THEN SeqVisit(Len(v.items), pulls)
                            ELSE ErrR("invalid_type")
         [] v.t = "obj"  -> IF req \in {"any", "map", "struct"} THEN MapVisit(Len(v.entries), pulls) ELSE ErrR("invalid_type")

(***************************************************************************)
(* Variant payload access after `enum`: payload = the value under the      *)
(* variant key (or none for a bare string).                                 *)
(***************************************************************************)
VariantRespond(hasPayload, payload, kind, pulls) ==
  CASE kind = "unit" -> IF ~hasPayload THEN Visit("ok") ELSE IF payload.t = "null" THEN Visit("ok") ELSE ErrR("invalid_type")
    [] kind = "newtype" -> IF hasPayload THEN Visit("seed") ELSE ErrR("invalid_type")
    [] kind = "tuple" -> IF hasPayload /\ payload.t = "arr"
                         THEN (IF payload.items = <<>> THEN Visit("unit") ELSE SeqVisit(Len(payload.items), pulls))
                         ELSE ErrR("invalid_type")
    [] kind = "struct" -> IF hasPayload /\ payload.t = "obj" THEN MapVisit(Len(payload.entries), pulls) ELSE ErrR("invalid_type")

(***************************************************************************)
(* Map keys are deserialized by a dedicated deserializer: integer requests  *)
(* parse the key as that integer (falling back to the string), everything   *)
(* else sees the string; options are always Some, enums are unit variants.  *)
(***************************************************************************)
IntRange(req) == CASE req = "i8" -> <<7, TRUE>> [] req = "i16" -> <<15, TRUE>> [] req = "i32" -> <<31, TRUE>> [] req = "i64" -> <<63, TRUE>>
                   [] req = "i128" -> <<127, TRUE>> [] req = "u8" -> <<8, FALSE>> [] req = "u16" -> <<16, FALSE>> [] req = "u32" -> <<32, FALSE>>
                   [] req = "u64" -> <<64, FALSE>> [] req = "u128" -> <<128, FALSE>>
\* Rust's integer FromStr: optional sign (+ or -; - only for signed types... a lone sign is an error), decimal digits, in range
IsDecimal(s) == s # <<>> /\ \A i \in 1..Len(s) : s[i] \in 48..57
KeyParses(k, req) ==
  LET rg == IntRange(req)
      signed == rg[2]
      body == IF k # <<>> /\ k[1] \in {43, 45} THEN Tail(k) ELSE k
      neg == k # <<>> /\ k[1] = 45
      n == FromDigits(StripLeading(DigitVals(body)))
  IN /\ IsDecimal(body)
     /\ (neg => signed)                     \* unsigned types reject any minus sign, even for zero
     /\ IF neg THEN Cmp(n, Pow2(rg[1])) <= 0 ELSE Cmp(n, Pow2(rg[1])) < 0
KeyRespond(k, req) ==
  IF req \in IntRequests THEN (IF KeyParses(k, req) THEN [r |-> "visit", m |-> req] ELSE [r |-> "visit", m |-> "string", s |-> k])
  ELSE IF req = "option" THEN Visit("some")
  ELSE IF req = "newtype_struct" THEN Visit("newtype_struct")
  ELSE IF req = "enum" THEN [r |-> "visit", m |-> "enum", variant |-> k, payload |-> FALSE]
  ELSE [r |-> "visit", m |-> "string", s |-> k]
=============================================================================
