----------------------------- MODULE TracePrinter -----------------------------
(***************************************************************************)
(* C04 / C08 / C13 (impl -> spec): the harness prints generated values      *)
(* under random option records with the real printer, re-parses the text    *)
(* with the real parser, and records (value, options, text, re-parsed       *)
(* value).  TLC checks per record                                           *)
(*    layout    : text = JsonPrinter!Render(value, options)                  *)
(*    roundtrip : the recorded re-parse equals the value, and the           *)
(*                specification's parser accepts the text with that value.  *)
(* `badl` / `badr` collect the events failing either check.                 *)
(***************************************************************************)
EXTENDS JsonPrinter, JsonParser, TLC, Json, IOUtils

Rec == ndJsonDeserialize(IOEnv.TRACE)

VARIABLES l, badl, badr
vars == <<l, badl, badr>>

LayoutOK(r) == r.text = Render(r.v, r.o)
RoundtripOK(r) == /\ r.back = r.v
                  /\ LET s == Run(r.text, Strict) IN s.mode = "done" /\ s.val = r.v

TrInit == l = 1 /\ badl = <<>> /\ badr = <<>>
TrNext == /\ l <= Len(Rec)
          /\ l' = l + 1
          /\ badl' = IF LayoutOK(Rec[l]) THEN badl ELSE Append(badl, l)
          /\ badr' = IF RoundtripOK(Rec[l]) THEN badr ELSE Append(badr, l)
TrSpec == TrInit /\ [][TrNext]_vars
Done == l = Len(Rec) + 1
Result == Done => PrintT(ToJson([k |-> "trace_result", events |-> Len(Rec), bad |-> badl, bad2 |-> badr]))
=============================================================================
