----------------------------- MODULE TraceSweep -----------------------------
(***************************************************************************)
(* Validation of the run-compressed sweeps (see Sweeps.tla).  A `run` event *)
(* is [sw, lo, hi, tag, coef, mode]: the real code produced, for every x in *)
(* lo..hi, the tuple <<tag>> \o [a_i * x + b_i].  mode = "all": SpecT is    *)
(* evaluated on every x; mode = "sample": on both end points, 33 evenly     *)
(* spaced interior points and every "interesting" point inside the run      *)
(* (a code change at one element either splits a run there - its end points *)
(* are always evaluated - or merges two runs across a point where the       *)
(* specification changes behaviour, and those points are all evaluated).    *)
(***************************************************************************)
EXTENDS Sweeps, TLC, Json, IOUtils

Rec == ndJsonDeserialize(IOEnv.TRACE)

VARIABLES l, bad
vars == <<l, bad>>

\* every place where the specification itself changes behaviour: all of ASCII / Latin-1
\* (quotes, backslash, controls, DEL, hex letters ...), the encoding-length and surrogate
\* boundaries, the characters JSON-like syntaxes treat specially
Around(S) == UNION {{c - 2, c - 1, c, c + 1, c + 2} : c \in S}
Interesting == (0..767) \cup Around({2047, 2048, 8232, 8233, 55295, 55296, 56319, 56320, 57343, 57344, 64512, 65279,
                                      65533, 65535, 65536, 131072, 1048575, 1048576, 1114111})
Points(r) == IF r.mode = "all" THEN r.lo..r.hi
             ELSE {r.lo, r.hi} \cup {r.lo + ((r.hi - r.lo) \div 32) * k : k \in 0..32}
                  \cup {x \in Interesting : r.lo <= x /\ x <= r.hi}
Closed(r, x) == <<r.tag>> \o [i \in 1..Len(r.coef) |-> r.coef[i][1] * x + r.coef[i][2]]
Holds(r) == \A x \in Points(r) : x <= r.hi => SpecT(r.sw, x) = Closed(r, x)

TrInit == l = 1 /\ bad = <<>>
TrNext == /\ l <= Len(Rec)
          /\ l' = l + 1
          /\ bad' = IF Holds(Rec[l]) THEN bad ELSE Append(bad, l)
TrSpec == TrInit /\ [][TrNext]_vars
Done == l = Len(Rec) + 1
Result == Done => PrintT(ToJson([k |-> "trace_result", events |-> Len(Rec), bad |-> bad]))
=============================================================================
