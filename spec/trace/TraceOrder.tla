------------------------------ MODULE TraceOrder ------------------------------
(***************************************************************************)
(* C14 (impl -> spec): the harness evaluates ==, cmp, partial_cmp and hash  *)
(* of the real crate on ALL PAIRS of a generated domain of values (with     *)
(* near-copies differing in one leaf / key / position / length) and records *)
(* the matrices.  TLC checks the LAWS against the recorded relation and the *)
(* specification's structural equality.  The concrete order is deliberately *)
(* not specified: C14 only demands a total order consistent with equality.  *)
(***************************************************************************)
EXTENDS Integers, Sequences, TLC, Json, IOUtils, JsonValue

Rec == ndJsonDeserialize(IOEnv.TRACE)

VARIABLES l, bad
vars == <<l, bad>>

\* r.vals : values; r.eq[i][j] : BOOLEAN; r.cmp[i][j], r.pcmp[i][j] \in {-1,0,1};
\* r.h1, r.h2 : hash classes under two hashers
B(b, k) == IF b THEN 2 ^ k ELSE 0
RelOf(c) == B(c # 0, 0) + B(c < 0, 1) + B(c <= 0, 2) + B(c > 0, 3) + B(c >= 0, 4) + 32 + 64 + 128

Laws(r) ==
  LET n == Len(r.vals) I == 1..n IN
  /\ \A i, j \in I : r.eq[i][j] = (r.vals[i] = r.vals[j])             \* equality is structural
  /\ \A i, j \in I : (r.cmp[i][j] = 0) = r.eq[i][j]                    \* Equal exactly when equal
  /\ \A i, j \in I : r.cmp[i][j] = 0 - r.cmp[j][i]                      \* antisymmetric (and reflexive)
  /\ \A i, j \in I : r.pcmp[i][j] = r.cmp[i][j]                         \* partial_cmp agrees
  /\ \A i, j, k \in I : (r.cmp[i][j] <= 0 /\ r.cmp[j][k] <= 0) => r.cmp[i][k] <= 0   \* transitive
  /\ \A i, j \in I : r.eq[i][j] => (r.h1[i] = r.h1[j] /\ r.h2[i] = r.h2[j])          \* hash respects equality
  \* the derived operators say what cmp says: bit 0 ne, 1 lt, 2 le, 3 gt, 4 ge; 5 max, 6 min, 7 Object impls agree
  /\ \A i, j \in I : r.rel[i][j] = RelOf(r.cmp[i][j])

TrInit == l = 1 /\ bad = <<>>
TrNext == /\ l <= Len(Rec)
          /\ l' = l + 1
          /\ bad' = IF Laws(Rec[l]) THEN bad ELSE Append(bad, l)
TrSpec == TrInit /\ [][TrNext]_vars

Done == l = Len(Rec) + 1
Result == Done => PrintT(ToJson([k |-> "trace_result", events |-> Len(Rec), bad |-> bad]))
=============================================================================
