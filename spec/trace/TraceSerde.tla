------------------------------ MODULE TraceSerde ------------------------------
(***************************************************************************)
(* C16 / C17 / C18 (impl -> spec).  Events recorded from the real crate:    *)
(*                                                                          *)
(* "typed"  (C16) one instance of a derive-annotated type: the data-model   *)
(*    term its Serialize impl emits (recording serializer), the Value       *)
(*    produced by json_syntax::to_value, serde_json's value for the same    *)
(*    datum, certificates for every float (bits as m * 2^e, the spelling     *)
(*    json-syntax produced), and the harness-evaluated round trips           *)
(*    (from_value(to_value d) = d, through serde_json's value and text).    *)
(* "value_ser" / "value_de" / "text_de" (C17) Value's own impls.            *)
(* "sj_rt" / "js_rt" (C18) conversions with serde_json::Value.              *)
(*                                                                          *)
(* bad: <<line, reason>>.  Reasons starting with "k1" / "k2" are the two    *)
(* number classes named by C17 (known findings); "certificate" means the    *)
(* harness supplied a wrong double (tool error).                            *)
(***************************************************************************)
EXTENDS SerdeSer, Decimal, TLC, Json, IOUtils

Rec == ndJsonDeserialize(IOEnv.TRACE)

VARIABLES l, bad
vars == <<l, bad>>

\* --- floats: c = [w, neg, m (digits), e, sp]: the spelling denotes that float
FloatOK(c) == LET d == ParseDec(c.sp) m == FromDigits(StripLeading(c.m)) IN
              /\ RoundsTo(d, m, c.e, Prec(c.w), EMin(c.w))
              /\ (m # <<>> => d.neg = c.neg)
\* F: float term -> spelling, from the certificates (a term is identified by width and bits)
FloatTerm(c) == [d |-> "float", cls |-> "finite", w |-> c.w, bits |-> c.bits]
FMap(floats) == [t \in {FloatTerm(floats[i]) : i \in 1..Len(floats)} |->
                   floats[CHOOSE i \in 1..Len(floats) : FloatTerm(floats[i]) = t].sp]

\* the integer-syntax class: no fraction and (an exponent, or not representable in 64 bits)
HasFrac(sp) == \E i \in 1..Len(sp) : sp[i] = 46
HasExp(sp) == \E i \in 1..Len(sp) : sp[i] \in {69, 101}
TwoPow63 == Pow2(63)
TwoPow64 == Pow2(64)
FitsI64OrU64(sp) == LET d == ParseDec(sp) n == FromDigits(d.digits) IN
                    ~HasFrac(sp) /\ ~HasExp(sp) /\
                    IF d.neg THEN Cmp(n, TwoPow63) <= 0 ELSE Cmp(n, TwoPow64) < 0
\* --- same shape up to member order; numbers: same real number, or both round to one of the floats
NumAgree(a, b, floats) ==
  \/ SameValue(a, b)
  \/ \E i \in 1..Len(floats) :
        LET c == floats[i] m == FromDigits(StripLeading(c.m)) IN
        RoundsTo(ParseDec(a), m, c.e, Prec(c.w), EMin(c.w)) /\ RoundsTo(ParseDec(b), m, c.e, Prec(c.w), EMin(c.w))
RECURSIVE ShapeEq(_, _, _)
ShapeEq(a, b, floats) ==
  IF a.t # b.t THEN FALSE
  ELSE CASE a.t = "num" -> NumAgree(a.num, b.num, floats)
         [] a.t = "arr" -> Len(a.items) = Len(b.items) /\ \A i \in 1..Len(a.items) : ShapeEq(a.items[i], b.items[i], floats)
         [] a.t = "obj" -> /\ Len(a.entries) = Len(b.entries)
                           /\ \A i \in 1..Len(a.entries) : \E j \in 1..Len(b.entries) :
                                a.entries[i].k = b.entries[j].k /\ ShapeEq(a.entries[i].v, b.entries[j].v, floats)
         [] OTHER -> a = b

TypedWhy(e) ==
  IF \E i \in 1..Len(e.floats) : ~FloatOK(e.floats[i]) THEN "float_spelling"
  ELSE LET r == Encode(e.term, FMap(e.floats)) IN
       IF ~r.ok THEN "encode_error"
       ELSE IF "v" \notin DOMAIN e.value THEN "to_value_failed"
       ELSE IF e.value.v # r.v THEN "encode"
       ELSE IF ~ShapeEq(e.value.v, e.sj, e.floats) THEN "shape"
       ELSE IF ~e.back THEN "roundtrip"
       ELSE IF ~e.back_sj THEN "roundtrip_serde_json_value"
       ELSE IF ~e.back_text THEN "roundtrip_serde_json_text"
       ELSE ""

\* --- C17
K1Class(sp) == ~HasFrac(sp) /\ ~FitsI64OrU64(sp)
RECURSIVE NumbersOf(_)
NumbersOf(v) == CASE v.t = "num" -> {v.num}
                  [] v.t = "arr" -> UNION {NumbersOf(v.items[i]) : i \in 1..Len(v.items)}
                  [] v.t = "obj" -> UNION {NumbersOf(v.entries[i].v) : i \in 1..Len(v.entries)}
                  [] OTHER -> {}
\* expected result of serializing a Value with the crate's serializer: itself, duplicates
\* collapsed; integers in canonical decimal form (negative zero loses its sign)
NormInt(sp) == IF ~HasFrac(sp) /\ ~HasExp(sp) /\ ParseDec(sp).digits = <<>> THEN <<48>> ELSE sp
RECURSIVE NormInts(_)
NormInts(v) == CASE v.t = "num" -> VNum(NormInt(v.num))
                 [] v.t = "arr" -> VArr([i \in 1..Len(v.items) |-> NormInts(v.items[i])])
                 [] v.t = "obj" -> VObj([i \in 1..Len(v.entries) |-> Entry(v.entries[i].k, NormInts(v.entries[i].v))])
                 [] OTHER -> v
\* "except that negative zero may lose its sign": a number denoting zero may come back without its minus sign
DropSign(sp) == IF sp # <<>> /\ sp[1] = 45 THEN Tail(sp) ELSE sp
SerNumOK(a, b) == b = NormInt(a) \/ (ParseDec(a).digits = <<>> /\ b = DropSign(NormInt(a)))
RECURSIVE SerKeeps(_, _)
SerKeeps(a, b) ==
  IF a.t # b.t THEN FALSE
  ELSE CASE a.t = "num" -> SerNumOK(a.num, b.num)
         [] a.t = "arr" -> Len(a.items) = Len(b.items) /\ \A i \in 1..Len(a.items) : SerKeeps(a.items[i], b.items[i])
         [] a.t = "obj" -> Len(a.entries) = Len(b.entries) /\
                           \A i \in 1..Len(a.entries) : a.entries[i].k = b.entries[i].k /\ SerKeeps(a.entries[i].v, b.entries[i].v)
         [] OTHER -> a = b
\* an object whose first key is the private number token cannot travel through serde (known finding K4)
RECURSIVE HasTokenKey(_)
HasTokenKey(v) == CASE v.t = "arr" -> \E i \in 1..Len(v.items) : HasTokenKey(v.items[i])
                    [] v.t = "obj" -> (v.entries # <<>> /\ v.entries[1].k = Token) \/ \E i \in 1..Len(v.entries) : HasTokenKey(v.entries[i].v)
                    [] OTHER -> FALSE

\* Known findings are matched at the PLACE they concern, so that another deviation in the same value is still reported:
\* the value must be kept except (k1) at numbers of the K1 class and (k4) at objects whose first key is the number token.
IsTokenObj(a) == a.t = "obj" /\ a.entries # <<>> /\ a.entries[1].k = Token
RECURSIVE SerKeepsBut(_, _, _, _)
SerKeepsBut(a, b, k1, k4) ==
  IF k4 /\ IsTokenObj(a) THEN TRUE
  ELSE IF a.t # b.t THEN FALSE
  ELSE CASE a.t = "num" -> ((k1 /\ K1Class(a.num)) \/ SerNumOK(a.num, b.num))
         [] a.t = "arr" -> Len(a.items) = Len(b.items) /\ \A i \in 1..Len(a.items) : SerKeepsBut(a.items[i], b.items[i], k1, k4)
         [] a.t = "obj" -> Len(a.entries) = Len(b.entries) /\
                           \A i \in 1..Len(a.entries) : a.entries[i].k = b.entries[i].k /\ SerKeepsBut(a.entries[i].v, b.entries[i].v, k1, k4)
         [] OTHER -> a = b

ValueSerWhy(e) ==
  IF "ok" \notin DOMAIN e.out THEN "panic"
  ELSE IF e.out.ok /\ SerKeeps(SerValue(e.v), e.out.v) THEN ""
  \* the whole serialization failed: explained by a K1 number (json-number refuses it) or by a token object
  ELSE IF ~e.out.ok THEN (IF \E sp \in NumbersOf(e.v) : K1Class(sp) THEN "k1" ELSE IF HasTokenKey(e.v) THEN "k4" ELSE "value_ser")
  ELSE IF (\E sp \in NumbersOf(e.v) : K1Class(sp)) /\ SerKeepsBut(SerValue(e.v), e.out.v, TRUE, FALSE) THEN "k1"
  ELSE IF HasTokenKey(e.v) /\ SerKeepsBut(SerValue(e.v), e.out.v, TRUE, TRUE) THEN "k4"
  ELSE "value_ser"

\* same structure; every number denotes the same integer, or the same double (certs: nearest doubles of v's numbers)
CertFor(sp, certs) == CHOOSE i \in 1..Len(certs) : certs[i].sp = sp
\* a 64-bit integer must stay that integer; any other number must denote the same double
NumKeeps(a, b, certs) ==
  \/ SameValue(a, b)
  \/ /\ ~FitsI64OrU64(a)
     /\ \E i \in 1..Len(certs) : certs[i].sp = a
     /\ LET c == certs[CertFor(a, certs)] m == FromDigits(StripLeading(c.m)) IN
        RoundsTo(ParseDec(b), m, c.e, 53, -1074)
RECURSIVE Keeps(_, _, _)
Keeps(a, b, certs) ==
  IF a.t # b.t THEN FALSE
  ELSE CASE a.t = "num" -> NumKeeps(a.num, b.num, certs)
         [] a.t = "arr" -> Len(a.items) = Len(b.items) /\ \A i \in 1..Len(a.items) : Keeps(a.items[i], b.items[i], certs)
         [] a.t = "obj" -> Len(a.entries) = Len(b.entries) /\
                           \A i \in 1..Len(a.entries) : a.entries[i].k = b.entries[i].k /\ Keeps(a.entries[i].v, b.entries[i].v, certs)
         [] OTHER -> a = b
CertsOK(certs) == \A i \in 1..Len(certs) :
                    LET c == certs[i] IN RoundsTo(ParseDec(c.sp), FromDigits(StripLeading(c.m)), c.e, 53, -1074)
SigDigits(sp) == Len(StripTrailing(ParseDec(sp).digits))
\* K2 concerns decimals that go through a floating-point text parser: a spelling that is a 64-bit integer never does
K2Class(sp) == SigDigits(sp) > 19 /\ ~FitsI64OrU64(sp)
\* kept except (k2) at numbers of the K2 class and (k4) at objects whose first key is the number token
RECURSIVE KeepsBut(_, _, _, _, _)
KeepsBut(a, b, certs, k2, k4) ==
  IF k4 /\ IsTokenObj(a) THEN TRUE
  ELSE IF a.t # b.t THEN FALSE
  ELSE CASE a.t = "num" -> ((k2 /\ K2Class(a.num)) \/ NumKeeps(a.num, b.num, certs))
         [] a.t = "arr" -> Len(a.items) = Len(b.items) /\ \A i \in 1..Len(a.items) : KeepsBut(a.items[i], b.items[i], certs, k2, k4)
         [] a.t = "obj" -> Len(a.entries) = Len(b.entries) /\
                           \A i \in 1..Len(a.entries) : a.entries[i].k = b.entries[i].k /\ KeepsBut(a.entries[i].v, b.entries[i].v, certs, k2, k4)
         [] OTHER -> a = b

\* value_de: the certificates are the nearest doubles of v's numbers (checked).
\* text_de : the numbers reach the Value through serde_json's text parser, which is not
\*           correctly rounded; the certificates are the doubles that parser presents
\*           (observations, not checked): the Value must keep what it is shown.
ValueDeWhy(e) ==
  IF e.ev = "value_de" /\ ~CertsOK(e.certs) THEN "certificate"
  ELSE IF "t" \in DOMAIN e.back /\ Keeps(e.expect, e.back, e.certs) THEN ""
  \* the whole deserialization failed: explained by a token object (known finding K4: a map whose first key is the token IS a
  \* number for the protocol, in both directions), else a violation
  ELSE IF "t" \notin DOMAIN e.back THEN (IF HasTokenKey(e.v) THEN "k4" ELSE "panic_or_error")
  ELSE IF (\E sp \in NumbersOf(e.v) : K2Class(sp)) /\ KeepsBut(e.expect, e.back, e.certs, TRUE, FALSE) THEN "k2"
  ELSE IF HasTokenKey(e.v) /\ KeepsBut(e.expect, e.back, e.certs, TRUE, TRUE) THEN "k4"
  ELSE "value_de"

\* --- C18
SjRtWhy(e) == IF e.panic THEN "panic" ELSE IF ~e.equal THEN "serde_json_roundtrip" ELSE ""
\* up to member order and number spelling
RECURSIVE KeepsUnordered(_, _, _)
KeepsUnordered(a, b, certs) ==
  IF a.t # b.t THEN FALSE
  ELSE CASE a.t = "num" -> NumKeeps(a.num, b.num, certs)
         [] a.t = "arr" -> Len(a.items) = Len(b.items) /\ \A i \in 1..Len(a.items) : KeepsUnordered(a.items[i], b.items[i], certs)
         [] a.t = "obj" -> Len(a.entries) = Len(b.entries) /\
                           \A i \in 1..Len(a.entries) : \E j \in 1..Len(b.entries) :
                              a.entries[i].k = b.entries[j].k /\ KeepsUnordered(a.entries[i].v, b.entries[j].v, certs)
         [] OTHER -> a = b
JsRtWhy(e) ==
  IF e.panic THEN "panic"
  ELSE IF ~CertsOK(e.certs) THEN "certificate"
  ELSE IF KeepsUnordered(e.v, e.back, e.certs) THEN "" ELSE "json_syntax_roundtrip"

Why(e) == CASE e.ev = "typed" -> TypedWhy(e)
            [] e.ev = "value_ser" -> ValueSerWhy(e)
            [] e.ev \in {"value_de", "text_de"} -> ValueDeWhy(e)
            [] e.ev = "sj_rt" -> SjRtWhy(e)
            [] e.ev = "js_rt" -> JsRtWhy(e)

TrInit == l = 1 /\ bad = <<>>
TrNext == /\ l <= Len(Rec)
          /\ l' = l + 1
          /\ LET why == Why(Rec[l]) IN bad' = IF why = "" THEN bad ELSE Append(bad, <<l, why>>)
TrSpec == TrInit /\ [][TrNext]_vars
Done == l = Len(Rec) + 1
Result == Done => PrintT(ToJson([k |-> "trace_result", events |-> Len(Rec), bad |-> bad]))
=============================================================================
