----------------------------- MODULE TraceParser -----------------------------
(***************************************************************************)
(* Trace validation for the parser (impl -> spec).  Two grains:             *)
(*                                                                          *)
(*  "bdoc" events: the same for byte input (parse_slice), decided by         *)
(*     Utf8!RunBytes (well-formed prefix, then the first ill-formed sequence).*)
(*  "doc" events (coarse): one event per real parse: input, options,        *)
(*     observed outcome and number of characters pulled.  The outcome must  *)
(*     be the specification's Outcome(Run(input, options)).                 *)
(*                                                                          *)
(*  "start" / "pull" / "begin" / "end" / "done" events (fine): the harness  *)
(*     feeds the real parser through an iterator that logs every pull, and  *)
(*     the cfg(json_syntax_verif) hooks log every reservation and closing   *)
(*     of a code-map fragment.  Each pull is one Step of JsonParser; the     *)
(*     fragment events between two pulls must be exactly the events that    *)
(*     Step performed (st.evs), in order; "done" carries the outcome.        *)
(*     After the specification has reached an error the bookkeeping events   *)
(*     are unconstrained (C05 speaks about successful parses only).  Polls   *)
(*     of the iterator after the outcome is decided (the implementation asks *)
(*     for the end marker several times) have no counterpart in the          *)
(*     specification: they are stuttering steps.                             *)
(*                                                                          *)
(* A mismatching event is recorded in `bad` with a reason, and the rest of  *)
(* that parse is skipped; the following parses are still validated.         *)
(***************************************************************************)
EXTENDS Utf8, TLC, Json, IOUtils

Rec == ndJsonDeserialize(IOEnv.TRACE)

VARIABLES l, st, opt, pend, skip, bad
vars == <<l, st, opt, pend, skip, bad>>

Range(s) == {s[i] : i \in 1..Len(s)}

ErrMatches(se, ge) ==
  IF se.kind # ge.kind THEN FALSE
  ELSE IF se.kind = "unexpected" THEN se.pos = ge.pos /\ se.ch = ge.ch
  ELSE IF se.kind = "utf8" THEN se.pos = ge.pos
  ELSE \* surrogate: the offending units, and a span inside the offending escape(s)
       /\ SpanInside(ge.span, se.region)
       /\ IF se.variant = ge.variant THEN se.units = ge.units ELSE Range(ge.units) \subseteq Range(se.units)

\* "" if the observed outcome g is the specified outcome s, else the reason
Why(s, g, strict, pulls) ==
  IF "ok" \notin DOMAIN g THEN "panic"                    \* the real parser panicked: data, not a tool error
  ELSE IF s.ok # g.ok THEN "verdict"
  ELSE IF s.ok /\ s.v # g.v THEN "value"
  ELSE IF s.ok /\ s.cm # g.cm THEN "codemap"
  ELSE IF (~s.ok) /\ strict /\ ~ErrMatches(s.err, g.err) THEN "error"
  ELSE ""

Opts(o) == MkOpts(o[1], o[2])
IsStrict(o) == ~o[1] /\ ~o[2]

TrInit == l = 1 /\ st = Init /\ opt = Strict /\ pend = <<>> /\ skip = FALSE /\ bad = <<>>

Flag(why) == /\ bad' = Append(bad, <<l, why>>) /\ skip' = TRUE /\ UNCHANGED <<st, opt, pend>>
Pass == UNCHANGED <<st, opt, pend, skip, bad>>

TrNext ==
  /\ l <= Len(Rec)
  /\ l' = l + 1
  /\ LET e == Rec[l] IN
     CASE e.ev = "doc" ->
            LET why == Why(Outcome(Run(e.w, Opts(e.o))), e.out, IsStrict(e.o), e.pulls) IN
            /\ bad' = IF why = "" THEN bad ELSE Append(bad, <<l, why>>)
            /\ UNCHANGED <<st, opt, pend, skip>>
       [] e.ev = "bdoc" ->   \* byte input through the slice entry points
            LET why == Why(Outcome(RunBytes(e.b, Opts(e.o))), e.out, IsStrict(e.o), 0) IN
            /\ bad' = IF why = "" THEN bad ELSE Append(bad, <<l, why>>)
            /\ UNCHANGED <<st, opt, pend, skip>>
       [] e.ev = "start" ->
            /\ st' = Init /\ opt' = Opts(e.o) /\ pend' = <<>> /\ skip' = FALSE /\ bad' = bad
       [] skip -> Pass
       [] e.ev = "pull" ->
            IF st.mode \in {"err", "done"} THEN Pass                         \* re-poll after the decision: stuttering
            ELSE IF pend # <<>> THEN Flag("events")                           \* a fragment event is missing
            ELSE LET s1 == Step(st, e.c, opt) IN
                 /\ st' = s1 /\ pend' = s1.evs /\ UNCHANGED <<opt, skip, bad>>
       [] e.ev \in {"begin", "end"} ->
            IF st.mode = "err" THEN Pass
            ELSE IF pend = <<>> THEN Flag("events")
            ELSE LET x == Head(pend) IN
                 IF x.ev = e.ev /\ x.i = e.i /\ x.pos = e.pos /\ (e.ev = "end" => x.vol = e.vol)
                 THEN /\ pend' = Tail(pend) /\ UNCHANGED <<st, opt, skip, bad>>
                 ELSE Flag("events")
       [] e.ev = "done" ->
            IF st.mode \notin {"err", "done"} THEN Flag("verdict")           \* stopped before the input was decided
            ELSE IF st.mode = "done" /\ pend # <<>> THEN Flag("events")
            ELSE LET why == Why(Outcome(st), e.out, opt = Strict, 0) IN
                 IF why = "" THEN Pass ELSE Flag(why)

TrSpec == TrInit /\ [][TrNext]_vars

Done == l = Len(Rec) + 1
Result == Done => PrintT(ToJson([k |-> "trace_result", events |-> Len(Rec), bad |-> bad]))
=============================================================================
