------------------------------ MODULE TraceCanon ------------------------------
(***************************************************************************)
(* C09 / C10 (impl -> spec).                                                *)
(*  "canon" events: an I-JSON value, the value and compact text produced by *)
(*  canonicalize, the text after a second application, and per distinct     *)
(*  number a certificate (spelling, claimed nearest double m * 2^e, the     *)
(*  rendering produced by the code).  TLC checks with exact arithmetic      *)
(*    - every certificate (the double really is the nearest one), then      *)
(*    - every rendering (round trip, shortest, closest, Number::toString),  *)
(*    - out = Canon(v) with those renderings (UTF-16 member order, nothing  *)
(*      else changed), text = compact print, second application = first,    *)
(*    - the key index of every object of the result (hook) is consistent.   *)
(*  "rewrite" events: two documents that MeaningEq proves equal in meaning  *)
(*  (member order, number spelling) must have byte-identical canonical      *)
(*  texts.                                                                  *)
(* bad: <<line, reason>>; reason "certificate" = the harness supplied a     *)
(* wrong double or a non-equivalent rewriting (tool error, not a violation) *)
(***************************************************************************)
EXTENDS Canonical, Decimal, TLC, Json, IOUtils

Rec == ndJsonDeserialize(IOEnv.TRACE)

VARIABLES l, bad
vars == <<l, bad>>

NumReason(c) == CanonNum(c.sp, c.m, c.e, c.r)
FirstReason(nums) == LET bads == {i \in 1..Len(nums) : NumReason(nums[i]) # ""} IN
                     IF bads = {} THEN "" ELSE
                     IF \E i \in bads : NumReason(nums[i]) = "certificate" THEN "certificate"
                     ELSE "number:" \o NumReason(nums[CHOOSE i \in bads : \A j \in bads : i <= j])

RendOf(nums) == [sp \in {nums[i].sp : i \in 1..Len(nums)} |-> (CHOOSE i \in 1..Len(nums) : nums[i].sp = sp)]
IdxOK(ob) == IdxList(IdxBuild([i \in 1..Len(ob.keys) |-> Entry(ob.keys[i], 0)])) = ob.idx

CanonWhy(e) ==
  LET nr == FirstReason(e.nums) IN
  IF nr # "" THEN nr
  ELSE LET R == [sp \in DOMAIN RendOf(e.nums) |-> e.nums[RendOf(e.nums)[sp]].r] IN
       IF ~UniqueKeys(e.v) THEN "certificate"
       ELSE IF e.out # Canon(e.v, R) THEN "structure"
       ELSE IF e.text # Render(e.out, Compact) THEN "text"
       ELSE IF e.again # e.text THEN "idempotence"
       ELSE IF \E i \in 1..Len(e.objs) : ~IdxOK(e.objs[i]) THEN "index"
       ELSE IF ~e.queries_ok THEN "queries"
       ELSE ""

\* equal in meaning: same structure up to member order, numerically equal numbers
RECURSIVE MeaningEq(_, _)
MeaningEq(a, b) ==
  IF a.t # b.t THEN FALSE
  ELSE CASE a.t = "num" -> SameValue(a.num, b.num)
         [] a.t = "arr" -> Len(a.items) = Len(b.items) /\ \A i \in 1..Len(a.items) : MeaningEq(a.items[i], b.items[i])
         [] a.t = "obj" -> /\ Len(a.entries) = Len(b.entries)
                           /\ \A i \in 1..Len(a.entries) : \E j \in 1..Len(b.entries) :
                                a.entries[i].k = b.entries[j].k /\ MeaningEq(a.entries[i].v, b.entries[j].v)
         [] OTHER -> a = b

RewriteWhy(e) == IF ~MeaningEq(e.a, e.b) THEN "certificate" ELSE IF e.ta # e.tb THEN "invariance" ELSE ""

\* "dup" events: values with repeated keys (outside I-JSON, so no canonical text is prescribed); the laws of C10 relate
\* the outputs: a rewriting that preserves meaning gives the same bytes, a second application changes nothing, the
\* object stays queryable
DupWhy(e) == IF e.panic THEN "panic"
             ELSE IF ~MeaningEq(e.a, e.b) THEN "certificate"
             ELSE IF e.ta # e.tb THEN "invariance"
             ELSE IF e.again # e.ta THEN "idempotence"
             ELSE IF ~e.queries_ok THEN "queries"
             ELSE ""

TrInit == l = 1 /\ bad = <<>>
TrNext == /\ l <= Len(Rec)
          /\ l' = l + 1
          /\ LET e == Rec[l]
                 why == IF e.ev = "canon" THEN CanonWhy(e) ELSE IF e.ev = "dup" THEN DupWhy(e)
                        \* a key-based update of the canonical object (value of a present key replaced, absent key added)
                        \* left a repeated key: the object was not "fully queryable by key afterwards"
                        ELSE IF e.ev = "mutfail" THEN "queries" ELSE RewriteWhy(e)
             IN bad' = IF why = "" THEN bad ELSE Append(bad, <<l, why>>)
TrSpec == TrInit /\ [][TrNext]_vars
Done == l = Len(Rec) + 1
Result == Done => PrintT(ToJson([k |-> "trace_result", events |-> Len(Rec), bad |-> bad]))
=============================================================================
