------------------------------- MODULE TraceNav -------------------------------
(***************************************************************************)
(* C11 (impl -> spec): the harness parses generated documents with the real *)
(* parser and records what the real navigation API returns: the fragment    *)
(* briefs in get_fragment order, the offsets yielded by iter_mapped for     *)
(* every array and object, and the result of typed conversions.  TLC        *)
(* recomputes all of it from the recorded value with CodeMapNav.            *)
(***************************************************************************)
EXTENDS CodeMapNav, TLC, Json, IOUtils

Rec == ndJsonDeserialize(IOEnv.TRACE)

VARIABLES l, bad
vars == <<l, bad>>

Why(e) ==
  IF e.ev = "nav" THEN
       LET nav == Nav(e.v) IN
       IF e.n # nav.n \/ e.volume # nav.volume THEN "counts"
       ELSE IF e.frags # nav.frags THEN "fragments"
       ELSE IF e.containers # nav.containers THEN "offsets"
       ELSE IF e.past_end # <<0, 1, 2>> THEN "past_end"
       ELSE ""
  ELSE \* "conv": a typed conversion
       IF e.result # Convert(e.v, e.T, 0) THEN "conversion" ELSE ""

TrInit == l = 1 /\ bad = <<>>
TrNext == /\ l <= Len(Rec)
          /\ l' = l + 1
          /\ LET why == Why(Rec[l]) IN bad' = IF why = "" THEN bad ELSE Append(bad, <<l, why>>)
TrSpec == TrInit /\ [][TrNext]_vars
Done == l = Len(Rec) + 1
Result == Done => PrintT(ToJson([k |-> "trace_result", events |-> Len(Rec), bad |-> bad]))
=============================================================================
