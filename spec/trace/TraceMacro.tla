------------------------------ MODULE TraceMacro ------------------------------
(***************************************************************************)
(* C19 (impl -> spec): larger generated json! invocations.  The harness     *)
(* generates decorated documents, emits them as Rust source, compiles the   *)
(* batch against the current tree and records, per invocation, the value    *)
(* the macro built (projected by the generated program itself) and the JSON *)
(* text it used.  TLC checks the recorded value against both the macro      *)
(* muncher specification and the parser specification run on the text.      *)
(***************************************************************************)
EXTENDS MacroDocs, JsonParser, TLC, Json, IOUtils

Rec == ndJsonDeserialize(IOEnv.TRACE)

VARIABLES l, bad
vars == <<l, bad>>

Why(e) ==
  IF e.text # Text(e.d) THEN "certificate"                       \* the harness rendered another text than the specification
  ELSE IF MacroValue(Tokens(e.d)) = Stuck THEN "certificate"     \* the harness generated an invocation the macro cannot expand
  ELSE IF e.built # MacroValue(Tokens(e.d)) THEN "macro_value"
  ELSE LET r == Run(e.text, Strict) IN
       IF r.mode # "done" \/ r.val # e.built THEN "differs_from_parse" ELSE ""

TrInit == l = 1 /\ bad = <<>>
TrNext == /\ l <= Len(Rec)
          /\ l' = l + 1
          /\ LET why == Why(Rec[l]) IN bad' = IF why = "" THEN bad ELSE Append(bad, <<l, why>>)
TrSpec == TrInit /\ [][TrNext]_vars
Done == l = Len(Rec) + 1
Result == Done => PrintT(ToJson([k |-> "trace_result", events |-> Len(Rec), bad |-> bad]))
=============================================================================
