------------------------------ MODULE TraceMacro ------------------------------
(***************************************************************************)
(* C19 (impl -> spec): larger generated json! invocations.  The harness     *)
(* generates decorated documents, emits them as Rust source, compiles the   *)
(* batch against the current tree and records, per invocation, the value    *)
(* the macro built (projected by the generated program itself) and the JSON *)
(* text it used.  TLC checks the recorded value against both the macro      *)
(* muncher specification and the parser specification run on the text.      *)
(***************************************************************************)
EXTENDS MacroDocs, JsonParser, TLC, Json, IOUtils

Rec == ndJsonDeserialize(IOEnv.TRACE)

VARIABLES l, bad
vars == <<l, bad>>

\* A float literal denoting zero is built as a number denoting zero with the same sign; how the crate's writer spells it
\* (0, 0.0, -0, -0.0) is not prescribed: zero spellings are normalised on both sides before comparing.
IsZeroSp(sp) == \A i \in 1..Len(sp) : (\A j \in 1..(i - 1) : sp[j] \notin {69, 101}) => sp[i] \in {45, 48, 46, 69, 101}
NormNum(sp) == IF IsZeroSp(sp) THEN (IF sp[1] = 45 THEN <<45, 48>> ELSE <<48>>) ELSE sp
RECURSIVE NormZ(_)
NormZ(v) == CASE v.t = "num" -> VNum(NormNum(v.num))
              [] v.t = "arr" -> VArr([i \in 1..Len(v.items) |-> NormZ(v.items[i])])
              [] v.t = "obj" -> VObj([i \in 1..Len(v.entries) |-> Entry(v.entries[i].k, NormZ(v.entries[i].v))])
              [] OTHER -> v

Why(e) ==
  IF e.text # Text(e.d) THEN "certificate"                       \* the harness rendered another text than the specification
  ELSE IF MacroValue(Tokens(e.d)) = Stuck THEN "certificate"     \* the harness generated an invocation the macro cannot expand
  ELSE IF NormZ(e.built) # NormZ(MacroValue(Tokens(e.d))) THEN "macro_value"
  ELSE LET r == Run(e.text, Strict) IN
       IF r.mode # "done" \/ NormZ(r.val) # NormZ(e.built) THEN "differs_from_parse" ELSE ""

TrInit == l = 1 /\ bad = <<>>
TrNext == /\ l <= Len(Rec)
          /\ l' = l + 1
          /\ LET why == Why(Rec[l]) IN bad' = IF why = "" THEN bad ELSE Append(bad, <<l, why>>)
TrSpec == TrInit /\ [][TrNext]_vars
Done == l = Len(Rec) + 1
Result == Done => PrintT(ToJson([k |-> "trace_result", events |-> Len(Rec), bad |-> bad]))
=============================================================================
