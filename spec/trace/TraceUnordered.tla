---------------------------- MODULE TraceUnordered ----------------------------
(***************************************************************************)
(* C15 (impl -> spec): the harness evaluates the crate's unordered          *)
(* comparison on pairs of large generated values (random shuffles of the    *)
(* entries at every depth: must hold; single-leaf / multiplicity / key      *)
(* mutations: must not) and on triples (transitivity).  TLC decides each    *)
(* recorded answer with MultisetEq (= UnorderedEq, see MC_Unordered).       *)
(***************************************************************************)
EXTENDS Integers, Sequences, TLC, Json, IOUtils, JsonValue

Rec == ndJsonDeserialize(IOEnv.TRACE)

VARIABLES l, bad
vars == <<l, bad>>

\* r.a, r.b : values ; r.ab, r.ba : the crate's answers in both argument orders;
\* r.wrapped : answer of the Unordered(..) == wrapper ; r.eq : ordinary equality
Holds(r) ==
  LET m == MultisetEq(r.a, r.b) IN
  /\ ~r.panic
  /\ r.ab = m /\ r.ba = m /\ r.wrapped = m
  /\ r.routes_agree        \* Unordered(..), as_unordered() and the container types' own impls all give that answer
  /\ r.eq = (r.a = r.b)
  /\ r.eq => r.ab

TrInit == l = 1 /\ bad = <<>>
TrNext == /\ l <= Len(Rec)
          /\ l' = l + 1
          /\ bad' = IF Holds(Rec[l]) THEN bad ELSE Append(bad, l)
TrSpec == TrInit /\ [][TrNext]_vars
Done == l = Len(Rec) + 1
Result == Done => PrintT(ToJson([k |-> "trace_result", events |-> Len(Rec), bad |-> bad]))
=============================================================================
