----------------------------- MODULE TraceObject -----------------------------
(***************************************************************************)
(* Trace validation for JsonObject (impl -> spec).  The harness performs a  *)
(* long random history of operations on a real Object and logs, per        *)
(* operation: the arguments, the result, and the full post-state (entries   *)
(* and the hooked index buckets).  Each event must be explained by          *)
(* JsonObject!Apply from the state reached so far.  A mismatching event is  *)
(* recorded in `bad` and the specification re-synchronises on the observed  *)
(* entries, so the rest of the trace is still checked.  "obs" events (C14)   *)
(* record that the object, hashed and compared at that point of its        *)
(* history, equals / compares Equal / hashes like a rebuilt object.        *)
(***************************************************************************)
EXTENDS JsonObject, TLC, Json, IOUtils

Rec == ndJsonDeserialize(IOEnv.TRACE)

VARIABLES l, o, bad
vars == <<l, o, bad>>

TrInit == l = 1 /\ o = EmptyObj /\ bad = <<>>

Explains(r, e) ==
  /\ r.obj.entries = e.post.entries
  /\ IdxList(r.obj.idx) = e.post.idx
  /\ r.ret = e.ret

TrNext ==
  /\ l <= Len(Rec)
  /\ l' = l + 1
  /\ LET e == Rec[l] IN
     IF e.ev = "reset"
     THEN o' = EmptyObj /\ bad' = bad
     ELSE IF e.ev = "obs"
     \* C14: whatever ==, cmp and hash observe is a function of the entries: the object, observed at this point of its
     \* history, is indistinguishable from one rebuilt from the entries the specification holds
     THEN o' = o /\ bad' = IF e.same /\ e.entries = o.entries THEN bad ELSE Append(bad, l)
     ELSE LET r == Apply(o, e.op) IN
          IF Explains(r, e)
          THEN o' = r.obj /\ bad' = bad
          ELSE o' = FromVec(e.post.entries) /\ bad' = Append(bad, l)

TrSpec == TrInit /\ [][TrNext]_vars

\* every state reached while following the real object satisfies the invariants
Consistent == IdxConsistent(o)

Done == l = Len(Rec) + 1
Result == Done => PrintT(ToJson([k |-> "trace_result", events |-> Len(Rec), bad |-> bad]))
=============================================================================
