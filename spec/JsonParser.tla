----------------------------- MODULE JsonParser -----------------------------
(***************************************************************************)
(* The json-syntax parser as a deterministic push-down automaton that is    *)
(* fed ONE CHARACTER PER STEP (plus a final EOF), written from RFC 8259,    *)
(* the rustdoc of `parse::Options` and properties C01/C02/C05/C07/C12 -     *)
(* not from the Rust code - but shaped like it: an explicit stack of open   *)
(* containers, a byte position, a code map filled by begin/end fragment     *)
(* events, and two option flags that only matter inside \u escapes.         *)
(*                                                                          *)
(*   Step(st, c, o)  : the transition function (c a code point or EOF)      *)
(*   Run(cs, o)      : fold of Step over a character sequence, then EOF     *)
(*   Outcome(st)     : the observable result (value + code map, or error)   *)
(*                                                                          *)
(* Errors follow C07: an `unexpected` error is raised at the first          *)
(* character after which no completion exists; its position is the byte     *)
(* offset of that character (= length of the longest viable prefix).        *)
(* Code map (C05): a fragment is reserved when its first significant        *)
(* character is seen and closed right after its last one; an entry          *)
(* fragment opens at its key's opening quote and closes with its value.     *)
(* st.evs lists the code-map events performed by the LAST step, in order;   *)
(* the trace specification matches them against the hooks in the crate.     *)
(***************************************************************************)
EXTENDS Integers, Sequences, Chars, JsonValue

MkOpts(t, i) == [trunc |-> t, inval |-> i]
Strict   == MkOpts(FALSE, FALSE)
AllOpts  == {MkOpts(t, i) : t \in BOOLEAN, i \in BOOLEAN}

NoErr == [kind |-> "none"]
ErrUnexpected(p, c) == [kind |-> "unexpected", pos |-> p, ch |-> c]
\* A surrogate error carries the offending code units; `region` is the byte
\* extent [lo, hi) of the offending escape sequence(s), backslash included.
ErrSurr(variant, units, lo, hi) ==
   [kind |-> "surrogate", variant |-> variant, units |-> units, region |-> <<lo, hi>>]

\* what "a span lying inside the offending escape sequence(s)" means for a reported span [a, b) and a region [lo, hi):
\* contained in it, and starting at a position of it - an empty span at hi points at whatever follows the escape
SpanInside(span, region) ==
   /\ region[1] <= span[1] /\ span[1] <= span[2] /\ span[2] <= region[2]
   /\ span[1] < region[2]

NoFrame == [kind |-> "none"]

Init == [mode |-> "value",   \* value arr0 obj0 key colon after lit num str done err
         sub  |-> "",        \* num: automaton state; str: "n" | "esc" | "hex"
         rest |-> <<>>,      \* lit: characters still expected
         litv |-> VNull,     \* lit: the value the literal denotes
         hexn |-> 0,         \* str/hex: digits read so far
         acc  |-> 0,         \* str/hex: value of the digits read so far
         hs   |-> 0,         \* str: pending high surrogate code unit (0 = none)
         hsPos |-> 0,        \* str: byte offset of the `u` of the pending high escape
         escPos |-> 0,       \* str: byte offset of the `u` of the current escape
         tok  |-> <<>>,      \* decoded characters / verbatim spelling of the current token
         tokFrag |-> 0,      \* fragment index of the current token
         isKey |-> FALSE,
         stack |-> <<>>,     \* open containers, innermost last
         pos  |-> 0,         \* byte offset of the next character
         n    |-> 0,         \* characters consumed
         cm   |-> <<>>,      \* code map: sequence of [s, e, v]
         evs  |-> <<>>,      \* code-map events of the last step
         val  |-> VNull,     \* the completed top-level value
         err  |-> NoErr]

Frame(kind, frag) == [kind |-> kind, frag |-> frag, items |-> <<>>, key |-> <<>>, efrag |-> 0]
Top(st) == st.stack[Len(st.stack)]

Advance(st, c) == [st EXCEPT !.pos = @ + Utf8Len(c), !.n = @ + 1]
Fail(st, e)    == [st EXCEPT !.mode = "err", !.err = e]

\* reserve a fragment starting at the current position; its index is Len(cm) (0-based)
BeginFrag(st) ==
  [st EXCEPT !.cm  = Append(@, [s |-> st.pos, e |-> st.pos, v |-> 0]),
             !.evs = Append(@, [ev |-> "begin", i |-> Len(st.cm), pos |-> st.pos])]

\* close fragment i at the current position; volume = fragments reserved since (inclusive)
EndFrag(st, i) ==
  LET vol == Len(st.cm) - i IN
  [st EXCEPT !.cm[i + 1] = [s |-> @.s, e |-> st.pos, v |-> vol],
             !.evs = Append(@, [ev |-> "end", i |-> i, pos |-> st.pos, vol |-> vol])]

\* A value (whose own fragment is already closed) is complete: hand it to
\* the enclosing container, or make it the result.
Complete(st, v) ==
  IF st.stack = <<>> THEN [st EXCEPT !.mode = "after", !.val = v]
  ELSE LET d == Len(st.stack) top == st.stack[d] IN
       IF top.kind = "arr"
       THEN [st EXCEPT !.mode = "after", !.stack[d].items = Append(@, v)]
       ELSE LET s1 == EndFrag(st, top.efrag) IN
            [s1 EXCEPT !.mode = "after", !.stack[d].items = Append(@, Entry(top.key, v))]

\* the closing bracket of the innermost container has just been consumed
CloseTop(st) ==
  LET top == Top(st)
      s1  == EndFrag(st, top.frag)
      s2  == [s1 EXCEPT !.stack = SubSeq(@, 1, Len(@) - 1)]
  IN Complete(s2, IF top.kind = "arr" THEN VArr(top.items) ELSE VObj(top.items))

StartTok(st, c) == LET i == Len(st.cm) IN
  [Advance(BeginFrag(st), c) EXCEPT !.tokFrag = i, !.tok = <<>>]

StartLit(st, c, rest, v) == [StartTok(st, c) EXCEPT !.mode = "lit", !.rest = rest, !.litv = v]

\* the first character of a value
StartValue(st, c) ==
  IF c = 110 THEN StartLit(st, c, <<117, 108, 108>>, VNull)               \* null
  ELSE IF c = 116 THEN StartLit(st, c, <<114, 117, 101>>, VBool(TRUE))    \* true
  ELSE IF c = 102 THEN StartLit(st, c, <<97, 108, 115, 101>>, VBool(FALSE)) \* false
  ELSE IF c = MINUS THEN [StartTok(st, c) EXCEPT !.mode = "num", !.sub = "minus", !.tok = <<c>>]
  ELSE IF c = ZERO THEN [StartTok(st, c) EXCEPT !.mode = "num", !.sub = "zero", !.tok = <<c>>]
  ELSE IF IsDigit19(c) THEN [StartTok(st, c) EXCEPT !.mode = "num", !.sub = "int", !.tok = <<c>>]
  ELSE IF c = QUOTE THEN [StartTok(st, c) EXCEPT !.mode = "str", !.sub = "n", !.isKey = FALSE, !.hs = 0]
  ELSE IF c = LBRACK THEN LET i == Len(st.cm) IN
       [Advance(BeginFrag(st), c) EXCEPT !.mode = "arr0", !.stack = Append(@, Frame("arr", i))]
  ELSE IF c = LBRACE THEN LET i == Len(st.cm) IN
       [Advance(BeginFrag(st), c) EXCEPT !.mode = "obj0", !.stack = Append(@, Frame("obj", i))]
  ELSE Fail(st, ErrUnexpected(st.pos, c))

\* the opening quote of a key: reserves the entry fragment, then the key fragment
StartKey(st, c) ==
  IF c = QUOTE
  THEN LET e  == Len(st.cm)
           s1 == BeginFrag(st)
           s2 == StartTok(s1, c)
       IN [s2 EXCEPT !.mode = "str", !.sub = "n", !.isKey = TRUE, !.hs = 0,
                     !.stack[Len(st.stack)].efrag = e]
  ELSE Fail(st, ErrUnexpected(st.pos, c))

\* after a complete value: separator, closing bracket, or end of input
After(st, c) ==
  IF IsWs(c) THEN Advance(st, c)
  ELSE IF st.stack = <<>>
       THEN IF c = EOF THEN [st EXCEPT !.mode = "done"] ELSE Fail(st, ErrUnexpected(st.pos, c))
  ELSE LET top == Top(st) IN
       IF c = COMMA THEN [Advance(st, c) EXCEPT !.mode = IF top.kind = "arr" THEN "value" ELSE "key"]
       ELSE IF (top.kind = "arr" /\ c = RBRACK) \/ (top.kind = "obj" /\ c = RBRACE)
            THEN CloseTop(Advance(st, c))
       ELSE Fail(st, ErrUnexpected(st.pos, c))

(***************************************************************************)
(* Numbers: RFC 8259 section 6                                              *)
(*   number = [ minus ] int [ frac ] [ exp ]                                *)
(* "end" = the character is not part of the number (legal only in an        *)
(* accepting state), "bad" = no number can continue like this.              *)
(***************************************************************************)
NumNext(q, c) ==
  CASE q = "minus" -> IF c = ZERO THEN "zero" ELSE IF IsDigit19(c) THEN "int" ELSE "bad"
    [] q = "zero"  -> IF c = DOT THEN "frac0" ELSE IF IsExpChar(c) THEN "exp0" ELSE "end"
    [] q = "int"   -> IF IsDigit(c) THEN "int" ELSE IF c = DOT THEN "frac0"
                      ELSE IF IsExpChar(c) THEN "exp0" ELSE "end"
    [] q = "frac0" -> IF IsDigit(c) THEN "frac" ELSE "bad"
    [] q = "frac"  -> IF IsDigit(c) THEN "frac" ELSE IF IsExpChar(c) THEN "exp0" ELSE "end"
    [] q = "exp0"  -> IF IsSign(c) THEN "exp1" ELSE IF IsDigit(c) THEN "exp" ELSE "bad"
    [] q = "exp1"  -> IF IsDigit(c) THEN "exp" ELSE "bad"
    [] q = "exp"   -> IF IsDigit(c) THEN "exp" ELSE "end"

Num(st, c) ==
  LET q == NumNext(st.sub, c) IN
  IF q = "bad" THEN Fail(st, ErrUnexpected(st.pos, c))
  ELSE IF q = "end"
       \* the number ended just before c; c is then handled as the follower
       \* of a complete value IN THE SAME STEP (one character of lookahead)
       THEN After(Complete(EndFrag(st, st.tokFrag), VNum(st.tok)), c)
  ELSE [Advance(st, c) EXCEPT !.sub = q, !.tok = Append(@, c)]

Lit(st, c) ==
  IF c = Head(st.rest)
  THEN IF Len(st.rest) = 1
       THEN LET s1 == Advance(st, c) IN Complete(EndFrag(s1, s1.tokFrag), st.litv)
       ELSE [Advance(st, c) EXCEPT !.rest = Tail(@)]
  ELSE Fail(st, ErrUnexpected(st.pos, c))

(***************************************************************************)
(* Strings: RFC 8259 section 7, plus the two lenient options (C12):         *)
(*  - a \u escape denoting a high surrogate that is not immediately         *)
(*    followed by a \u escape denoting a low surrogate is an UNPAIRED HIGH: *)
(*    with `trunc` it decodes to one U+FFFD, otherwise it is an error;      *)
(*  - a \u escape denoting a low surrogate with no pending high before it   *)
(*    is a LONE LOW: with `inval` it decodes to one U+FFFD, otherwise it is *)
(*    an error;                                                             *)
(*  - a high escape immediately followed by a low escape always combines.   *)
(* Each option acts on its own kind of escape only.                         *)
(***************************************************************************)
\* the pending high surrogate (if any) turned out to be unpaired because
\* something that is not a \u escape follows
FlushHigh(st, o) ==
  IF st.hs = 0 THEN st
  ELSE IF o.trunc THEN [st EXCEPT !.tok = Append(@, REPL), !.hs = 0]
  ELSE Fail(st, ErrSurr("missing_low", <<st.hs>>, st.hsPos - 1, st.hsPos + 5))

PushChar(st, ch, o) ==
  LET s1 == FlushHigh(st, o) IN
  IF s1.mode = "err" THEN s1 ELSE [s1 EXCEPT !.tok = Append(@, ch), !.sub = "n"]

\* a \u escape (already consumed) with no pending high surrogate before it
LoneEscape(st, cp, o) ==
  IF IsHigh(cp) THEN [st EXCEPT !.hs = cp, !.hsPos = st.escPos, !.sub = "n"]
  ELSE IF IsLow(cp)
       THEN IF o.inval THEN [st EXCEPT !.tok = Append(@, REPL), !.sub = "n"]
            ELSE Fail(st, ErrSurr("invalid_cp", <<cp>>, st.escPos - 1, st.escPos + 5))
  ELSE [st EXCEPT !.tok = Append(@, cp), !.sub = "n"]

\* a complete \uXXXX escape denoting code unit cp has just been consumed
HexDone(st, cp, o) ==
  IF st.hs # 0
  THEN IF IsLow(cp)
       THEN [st EXCEPT !.tok = Append(@, Combine(st.hs, cp)), !.hs = 0, !.sub = "n"]
       ELSE IF o.trunc
            THEN LoneEscape([st EXCEPT !.tok = Append(@, REPL), !.hs = 0], cp, o)
            ELSE Fail(st, ErrSurr("invalid_low", <<st.hs, cp>>, st.hsPos - 1, st.escPos + 5))
  ELSE LoneEscape(st, cp, o)

Str(st, c, o) ==
  IF st.sub = "n" THEN
       IF c = QUOTE THEN
            LET s1 == FlushHigh(Advance(st, c), o) IN
            IF s1.mode = "err" THEN s1
            ELSE LET s2 == EndFrag(s1, s1.tokFrag) IN
                 IF st.isKey
                 THEN [s2 EXCEPT !.mode = "colon", !.stack[Len(st.stack)].key = s1.tok]
                 ELSE Complete(s2, VStr(s1.tok))
       ELSE IF c = BSLASH THEN [Advance(st, c) EXCEPT !.sub = "esc"]
       ELSE IF c = EOF \/ IsControl(c) THEN Fail(st, ErrUnexpected(st.pos, c))
       ELSE PushChar(Advance(st, c), c, o)
  ELSE IF st.sub = "esc" THEN
       IF c \in EscLetters THEN PushChar(Advance(st, c), EscValue(c), o)
       ELSE IF c = 117 THEN [Advance(st, c) EXCEPT !.sub = "hex", !.hexn = 0, !.acc = 0, !.escPos = st.pos]
       ELSE Fail(st, ErrUnexpected(st.pos, c))
  ELSE \* "hex"
       IF IsHexDigit(c)
       THEN LET a == st.acc * 16 + HexVal(c) s1 == Advance(st, c) IN
            IF st.hexn = 3 THEN HexDone(s1, a, o)
            ELSE [s1 EXCEPT !.hexn = @ + 1, !.acc = a]
       ELSE Fail(st, ErrUnexpected(st.pos, c))

(***************************************************************************)
(* The transition function.                                                 *)
(***************************************************************************)
Step(st0, c, o) ==
  LET st == [st0 EXCEPT !.evs = <<>>] IN
  CASE st.mode \in {"err", "done"} -> st
    [] st.mode = "value" -> IF IsWs(c) THEN Advance(st, c) ELSE StartValue(st, c)
    [] st.mode = "arr0"  -> IF IsWs(c) THEN Advance(st, c)
                            ELSE IF c = RBRACK THEN CloseTop(Advance(st, c))
                            ELSE StartValue([st EXCEPT !.mode = "value"], c)
    [] st.mode = "obj0"  -> IF IsWs(c) THEN Advance(st, c)
                            ELSE IF c = RBRACE THEN CloseTop(Advance(st, c))
                            ELSE StartKey(st, c)
    [] st.mode = "key"   -> IF IsWs(c) THEN Advance(st, c) ELSE StartKey(st, c)
    [] st.mode = "colon" -> IF IsWs(c) THEN Advance(st, c)
                            ELSE IF c = COLON THEN [Advance(st, c) EXCEPT !.mode = "value"]
                            ELSE Fail(st, ErrUnexpected(st.pos, c))
    [] st.mode = "after" -> After(st, c)
    [] st.mode = "lit"   -> Lit(st, c)
    [] st.mode = "num"   -> Num(st, c)
    [] st.mode = "str"   -> Str(st, c, o)

Finish(st, o) == IF st.mode = "err" THEN st ELSE Step(st, EOF, o)

RECURSIVE RunFrom(_, _, _, _)
RunFrom(st, cs, i, o) ==
  IF st.mode = "err" \/ i > Len(cs) THEN st ELSE RunFrom(Step(st, cs[i], o), cs, i + 1, o)

Run(cs, o) == Finish(RunFrom(Init, cs, 1, o), o)

CmTriples(cm) == [i \in 1..Len(cm) |-> <<cm[i].s, cm[i].e, cm[i].v>>]

\* the observable outcome of a finished run; `pulls` = the number of input
\* CHARACTERS the parser needs to decide: the characters consumed, plus the
\* offending character when that one is rejected without being consumed
\* (C03: each input character is pulled at most once, so a conforming parser
\* never pulls more than this many characters)
Outcome(st) ==
  IF st.mode = "done"
  THEN [ok |-> TRUE, v |-> st.val, cm |-> CmTriples(st.cm), pulls |-> st.n]
  ELSE [ok |-> FALSE, err |-> st.err,
        pulls |-> IF st.err.kind = "unexpected" /\ st.err.ch # EOF THEN st.n + 1 ELSE st.n]


(***************************************************************************)
(* The typed entry points (beyond the listed properties: `bool`, `()`,      *)
(* `NumberBuf` and `String` implement the same Parse trait as Value).  They *)
(* parse ONE token that must start at the very first character (no leading  *)
(* whitespace is skipped) and stop right after it: what follows a literal   *)
(* or a string is not looked at; a number ends at the first character that  *)
(* cannot continue it, which must be JSON whitespace or the end of input    *)
(* (the follow set of the top-level context).  The token automata are the   *)
(* ones of the value parser, so TokenRun reuses Step.                       *)
(***************************************************************************)
TokenKinds == {"bool", "null", "num", "str"}
TokenStartOK(kind, c) ==
  CASE kind = "bool" -> c \in {116, 102}
    [] kind = "null" -> c = 110
    [] kind = "num"  -> c = MINUS \/ IsDigit(c)
    [] kind = "str"  -> c = QUOTE
TokenKindOf(c) == IF c \in {116, 102} THEN "bool" ELSE IF c = 110 THEN "null"
                  ELSE IF c = MINUS \/ IsDigit(c) THEN "num" ELSE IF c = QUOTE THEN "str" ELSE "none"

RECURSIVE TokFrom(_, _, _, _)
TokFrom(st, cs, i, o) ==
  IF st.mode \in {"err", "after", "done"} THEN st
  ELSE IF i > Len(cs) THEN Step(st, EOF, o)
  ELSE TokFrom(Step(st, cs[i], o), cs, i + 1, o)

TokenRun(kind, cs, o) ==
  IF cs = <<>> THEN Fail(Init, ErrUnexpected(0, EOF))
  ELSE IF ~TokenStartOK(kind, cs[1]) THEN Fail(Init, ErrUnexpected(0, cs[1]))
  ELSE TokFrom(Step(Init, cs[1], o), cs, 2, o)

TokenOutcome(st) ==
  IF st.mode \in {"after", "done"} THEN [ok |-> TRUE, v |-> st.val, cm |-> CmTriples(st.cm)]
  ELSE [ok |-> FALSE, err |-> st.err]

(***************************************************************************)
(* Viable prefixes (C07).  Completion(st) is a character sequence that      *)
(* closes the current token and every open container.  The invariant        *)
(* checked by the tree models is: every state that is not an error state    *)
(* is accepted after its completion, i.e. the text read so far can still be *)
(* extended to a text matching the RFC 8259 grammar (in which any \uXXXX    *)
(* escape is syntactically allowed: the completion is run under the lenient *)
(* options).  Hence an `unexpected` error is never raised while the prefix  *)
(* is still viable; since error states are absorbing, it is raised at the   *)
(* first character after which no completion exists.                        *)
(***************************************************************************)
Lenient == MkOpts(TRUE, TRUE)
Zeros4(n) == [i \in 1..(4 - n) |-> 48]
TokCompletion(st) ==
  CASE st.mode = "value" -> <<48>>
    [] st.mode = "arr0"  -> <<93>>
    [] st.mode = "obj0"  -> <<125>>
    [] st.mode = "key"   -> <<34, 34, 58, 48>>
    [] st.mode = "colon" -> <<58, 48>>
    [] st.mode = "after" -> <<>>
    [] st.mode = "lit"   -> st.rest
    [] st.mode = "num"   -> IF st.sub \in {"minus", "frac0", "exp0", "exp1"} THEN <<48>> ELSE <<>>
    [] st.mode = "str"   -> (CASE st.sub = "n" -> <<34>>
                               [] st.sub = "esc" -> <<110, 34>>
                               [] st.sub = "hex" -> Zeros4(st.hexn) \o <<34>>)
                            \o (IF st.isKey THEN <<58, 48>> ELSE <<>>)
    [] OTHER -> <<>>
RECURSIVE Closers(_, _)
Closers(stack, n) == IF n = 0 THEN <<>> ELSE <<IF stack[n].kind = "arr" THEN 93 ELSE 125>> \o Closers(stack, n - 1)
Completion(st) == TokCompletion(st) \o Closers(st.stack, IF st.mode \in {"arr0", "obj0"} THEN Len(st.stack) - 1 ELSE Len(st.stack))
IsViable(st) == Finish(RunFrom(st, Completion(st), 1, Lenient), Lenient).mode = "done"

(***************************************************************************)
(* Design-level invariants of a run (checked by the MC instances).          *)
(***************************************************************************)
\* C03: one character per step, the stack is exactly the open brackets
Depth(st) == Len(st.stack)

\* C05 while running: every reserved fragment not yet closed belongs to an
\* open container, a pending entry or the current token
OpenFrags(st) == {i \in 0..(Len(st.cm) - 1) : st.cm[i + 1].v = 0}

\* C05 on accept: the code map describes Fragments(value) in pre-order
CodeMapMatchesValue(st) ==
  LET fr == Fragments(st.val) IN
  /\ Len(st.cm) = Len(fr)
  /\ \A i \in 1..Len(fr) : st.cm[i].v = fr[i].vol /\ st.cm[i].v >= 1 /\ st.cm[i].s < st.cm[i].e
  /\ Len(st.cm) >= 1 => st.cm[1].v = Len(st.cm)
  \* children nest inside their parent; later siblings start after earlier ones end
  /\ \A i \in 1..Len(fr) : \A j \in (i + 1)..(i + st.cm[i].v - 1) :
        st.cm[i].s <= st.cm[j].s /\ st.cm[j].e <= st.cm[i].e
=============================================================================
