----------------------------- MODULE JsonObject -----------------------------
(***************************************************************************)
(* json_syntax::Object: an insertion-ordered multimap.                      *)
(*                                                                          *)
(* ABSTRACT STATE  entries : a sequence of [k, v] pairs (duplicates kept).  *)
(* REFINEMENT      idx     : the key index, key |-> [rep, other], where     *)
(*                 rep is the first position holding the key and `other`    *)
(*                 the remaining positions in increasing order (0-based).   *)
(*                                                                          *)
(* Two layers, kept apart on purpose:                                       *)
(*  1. L* operators: the DOCUMENTED semantics of each public operation on   *)
(*     a plain list (what C06 calls "a plain ordered list of key/value       *)
(*     pairs subjected to the documented semantics").                       *)
(*  2. Idx* operators: the index-maintenance algorithm at the grain of the  *)
(*     implementation (insert / remove / shift_up / shift_down / clear),    *)
(*     composed per public operation exactly as the implementation          *)
(*     composes them.                                                       *)
(* Apply(st, op) runs both; the invariant IdxConsistent says the second is  *)
(* the index of the first.  TLC checks it for every reachable abstract      *)
(* state and every operation; the harness compares the real buckets (hook)  *)
(* with idx after every step.                                               *)
(***************************************************************************)
EXTENDS Integers, Sequences, FiniteSets, JsonValue

\* ------------------------------------------------------------------ order
RECURSIVE SeqLess(_, _)
\* lexicographic order on sequences of naturals (keys: code points = UTF-8 byte order)
SeqLess(a, b) == IF a = <<>> THEN b # <<>>
                 ELSE IF b = <<>> THEN FALSE
                 ELSE IF Head(a) # Head(b) THEN Head(a) < Head(b)
                 ELSE SeqLess(Tail(a), Tail(b))

\* entries are ordered by key, then by value (values of the object models are naturals)
EntryLeq(x, y) == IF x.k # y.k THEN SeqLess(x.k, y.k) ELSE x.v <= y.v

RECURSIVE InsertSorted(_, _)
InsertSorted(s, x) == IF s = <<>> THEN <<x>>
                      ELSE IF EntryLeq(x, Head(s)) /\ ~(EntryLeq(Head(s), x)) THEN <<x>> \o s
                      ELSE <<Head(s)>> \o InsertSorted(Tail(s), x)
RECURSIVE SortEntries(_)
\* stable insertion sort
SortEntries(s) == IF s = <<>> THEN <<>> ELSE InsertSorted(SortEntries(SubSeq(s, 1, Len(s) - 1)), s[Len(s)])

\* --------------------------------------------------------- list semantics
\* positions are 0-based in results, like the crate
Positions(es, k) == [j \in 1..Len(IndexesOf(es, k)) |-> IndexesOf(es, k)[j] - 1]
HasKey(es, k) == \E i \in 1..Len(es) : es[i].k = k
RemoveNth(es, p) == SubSeq(es, 1, p) \o SubSeq(es, p + 2, Len(es))      \* p 0-based
RECURSIVE FilterOutKey(_, _)
FilterOutKey(es, k) == IF es = <<>> THEN <<>>
                       ELSE (IF Head(es).k = k THEN <<>> ELSE <<Head(es)>>) \o FilterOutKey(Tail(es), k)
RECURSIVE OnlyKey(_, _)
OnlyKey(es, k) == IF es = <<>> THEN <<>>
                  ELSE (IF Head(es).k = k THEN <<Head(es)>> ELSE <<>>) \o OnlyKey(Tail(es), k)

LPush(es, k, v)      == Append(es, Entry(k, v))
LPushFront(es, k, v) == <<Entry(k, v)>> \o es
\* insert: the first entry with the key is replaced in place, the others are removed
LInsert(es, k, v) ==
  IF HasKey(es, k)
  THEN LET p == Positions(es, k)[1] IN
       SubSeq(es, 1, p) \o <<Entry(k, v)>> \o FilterOutKey(SubSeq(es, p + 2, Len(es)), k)
  ELSE Append(es, Entry(k, v))
LInsertRemoved(es, k) == OnlyKey(es, k)
\* insert_front: the new entry comes first, every other entry with the key is removed
LInsertFront(es, k, v) == <<Entry(k, v)>> \o FilterOutKey(es, k)
LRemove(es, k) == FilterOutKey(es, k)

\* ------------------------------------------------------------ index layer
EmptyIdx == [x \in {} |-> 0]
Bucket(rep, other) == [rep |-> rep, other |-> other]

RECURSIVE InsertAsc(_, _)
InsertAsc(s, x) == IF s = <<>> THEN <<x>>
                   ELSE IF x = Head(s) THEN s
                   ELSE IF x < Head(s) THEN <<x>> \o s
                   ELSE <<Head(s)>> \o InsertAsc(Tail(s), x)
RemoveVal(s, x) == LET RECURSIVE go(_)
                       go(t) == IF t = <<>> THEN <<>>
                                ELSE (IF Head(t) = x THEN <<>> ELSE <<Head(t)>>) \o go(Tail(t))
                   IN go(s)

\* Indexes::insert + IndexMap::insert : associate position i (0-based) of es with its key
IdxInsert(idx, es, i) ==
  LET k == es[i + 1].k IN
  IF k \in DOMAIN idx
  THEN LET b == idx[k] IN
       IF i = b.rep THEN idx
       ELSE IF i < b.rep THEN [idx EXCEPT ![k] = Bucket(i, InsertAsc(b.other, b.rep))]
       ELSE [idx EXCEPT ![k] = Bucket(b.rep, InsertAsc(b.other, i))]
  ELSE [x \in DOMAIN idx \cup {k} |-> IF x = k THEN Bucket(i, <<>>) ELSE idx[x]]

\* Indexes::remove + IndexMap::remove : forget position i of es
IdxRemove(idx, es, i) ==
  LET k == es[i + 1].k IN
  IF k \notin DOMAIN idx THEN idx
  ELSE LET b == idx[k] IN
       IF b.rep = i
       THEN IF b.other = <<>> THEN [x \in DOMAIN idx \ {k} |-> idx[x]]
            ELSE [idx EXCEPT ![k] = Bucket(Head(b.other), Tail(b.other))]
       ELSE [idx EXCEPT ![k] = Bucket(b.rep, RemoveVal(b.other, i))]

\* decrease every position greater than i
IdxShiftDown(idx, i) ==
  [x \in DOMAIN idx |-> Bucket(IF idx[x].rep > i THEN idx[x].rep - 1 ELSE idx[x].rep,
                               [j \in 1..Len(idx[x].other) |->
                                  IF idx[x].other[j] > i THEN idx[x].other[j] - 1 ELSE idx[x].other[j]])]
\* increase every position greater than or equal to i
IdxShiftUp(idx, i) ==
  [x \in DOMAIN idx |-> Bucket(IF idx[x].rep >= i THEN idx[x].rep + 1 ELSE idx[x].rep,
                               [j \in 1..Len(idx[x].other) |->
                                  IF idx[x].other[j] >= i THEN idx[x].other[j] + 1 ELSE idx[x].other[j]])]

RECURSIVE IdxBuildFrom(_, _, _)
IdxBuildFrom(idx, es, i) == IF i >= Len(es) THEN idx ELSE IdxBuildFrom(IdxInsert(idx, es, i), es, i + 1)
IdxBuild(es) == IdxBuildFrom(EmptyIdx, es, 0)

\* ------------------------------------------------- state and its algorithm
Obj(es, idx) == [entries |-> es, idx |-> idx]
EmptyObj == Obj(<<>>, EmptyIdx)
FromVec(es) == Obj(es, IdxBuild(es))

APush(o, k, v) == LET es == Append(o.entries, Entry(k, v)) IN Obj(es, IdxInsert(o.idx, es, Len(es) - 1))
APushFront(o, k, v) == LET es == <<Entry(k, v)>> \o o.entries IN Obj(es, IdxInsert(IdxShiftUp(o.idx, 0), es, 0))
\* remove_at(i) for a valid position
ARemoveAt(o, i) == Obj(RemoveNth(o.entries, i), IdxShiftDown(IdxRemove(o.idx, o.entries, i), i))

\* the lazy removal iterators, run to completion (what Drop does): remove the
\* redundant (second and later) positions of key k one by one, lowest first
RECURSIVE APurgeRedundant(_, _)
APurgeRedundant(o, k) ==
  IF k \in DOMAIN o.idx /\ o.idx[k].other # <<>> THEN APurgeRedundant(ARemoveAt(o, Head(o.idx[k].other)), k) ELSE o
\* remove(key): remove the first position of the key until none is left
RECURSIVE APurgeAll(_, _)
APurgeAll(o, k) == IF k \in DOMAIN o.idx THEN APurgeAll(ARemoveAt(o, o.idx[k].rep), k) ELSE o

Prefix(s, n) == SubSeq(s, 1, IF n < Len(s) THEN n ELSE Len(s))

(***************************************************************************)
(* Apply(o, op): the result of a public operation: [obj, ret].              *)
(* op.n = how many items the caller pulls from a removal iterator before    *)
(* dropping it (99 = all); the final state never depends on it.             *)
(***************************************************************************)
None == [some |-> FALSE]
Some(x) == [some |-> TRUE, val |-> x]

Apply(o, op) ==
  LET es == o.entries IN
  CASE op.op = "push" -> [obj |-> APush(o, op.k, op.v), ret |-> [fresh |-> ~HasKey(es, op.k)]]
    [] op.op = "push_front" -> [obj |-> APushFront(o, op.k, op.v), ret |-> [fresh |-> ~HasKey(es, op.k)]]
    [] op.op = "remove_at" ->
         IF op.i < Len(es) THEN [obj |-> ARemoveAt(o, op.i), ret |-> Some(es[op.i + 1])]
         ELSE [obj |-> o, ret |-> None]
    [] op.op = "insert" ->
         IF op.k \in DOMAIN o.idx
         THEN LET p  == o.idx[op.k].rep
                  o1 == Obj([es EXCEPT ![p + 1] = Entry(op.k, op.v)], o.idx)
              IN [obj |-> APurgeRedundant(o1, op.k), ret |-> Some(Prefix(LInsertRemoved(es, op.k), op.n))]
         ELSE [obj |-> APush(o, op.k, op.v), ret |-> None]
    [] op.op = "insert_front" ->
         IF es # <<>> /\ es[1].k = op.k
         THEN LET o1 == Obj([es EXCEPT ![1] = Entry(op.k, op.v)], o.idx)
              IN [obj |-> APurgeRedundant(o1, op.k), ret |-> Prefix(OnlyKey(es, op.k), op.n)]
         ELSE [obj |-> APurgeRedundant(APushFront(o, op.k, op.v), op.k), ret |-> Prefix(OnlyKey(es, op.k), op.n)]
    [] op.op = "remove" -> [obj |-> APurgeAll(o, op.k), ret |-> Prefix(OnlyKey(es, op.k), op.n)]
    [] op.op = "remove_unique" ->
         \* the entries are removed even when the call reports a duplicate (the
         \* iterator completes on drop); documented: error on multiple matches
         LET m == OnlyKey(es, op.k) IN
         [obj |-> APurgeAll(o, op.k),
          ret |-> IF m = <<>> THEN [r |-> "none"]
                  ELSE IF Len(m) = 1 THEN [r |-> "one", e |-> m[1]]
                  ELSE [r |-> "dup", e |-> m[1], d |-> m[2]]]
    [] op.op = "sort" -> [obj |-> FromVec(SortEntries(es)), ret |-> None]
    [] op.op = "from_vec" -> [obj |-> FromVec(op.es), ret |-> None]
    [] op.op = "extend" ->
         LET RECURSIVE ext(_, _)
             ext(ob, i) == IF i > Len(op.es) THEN ob ELSE ext(APush(ob, op.es[i].k, op.es[i].v), i + 1)
         IN [obj |-> ext(o, 1), ret |-> None]
    [] op.op = "set_value" ->
         IF op.i < Len(es) THEN [obj |-> Obj([es EXCEPT ![op.i + 1].v = op.v], o.idx), ret |-> Some(es[op.i + 1].v)]
         ELSE [obj |-> o, ret |-> None]
    [] op.op = "get_or_insert" ->
         IF op.k \in DOMAIN o.idx THEN [obj |-> o, ret |-> [v |-> es[o.idx[op.k].rep + 1].v]]
         ELSE [obj |-> APush(o, op.k, op.v), ret |-> [v |-> op.v]]
    [] op.op = "clone" -> [obj |-> o, ret |-> None]
    \* Clone::clone_from into an object that held op.es before: whatever it held is forgotten
    [] op.op = "clone_from" -> [obj |-> o, ret |-> None]

\* the documented list semantics of the same operations (independent of idx)
LApply(es, op) ==
  CASE op.op = "push" -> LPush(es, op.k, op.v)
    [] op.op = "push_front" -> LPushFront(es, op.k, op.v)
    [] op.op = "remove_at" -> IF op.i < Len(es) THEN RemoveNth(es, op.i) ELSE es
    [] op.op = "insert" -> LInsert(es, op.k, op.v)
    [] op.op = "insert_front" -> LInsertFront(es, op.k, op.v)
    [] op.op = "remove" -> LRemove(es, op.k)
    [] op.op = "remove_unique" -> LRemove(es, op.k)
    [] op.op = "sort" -> SortEntries(es)
    [] op.op = "from_vec" -> op.es
    [] op.op = "extend" -> es \o op.es
    [] op.op = "set_value" -> IF op.i < Len(es) THEN [es EXCEPT ![op.i + 1].v = op.v] ELSE es
    [] op.op = "get_or_insert" -> IF HasKey(es, op.k) THEN es ELSE LPush(es, op.k, op.v)
    [] op.op = "clone" -> es
    [] op.op = "clone_from" -> es

\* ----------------------------------------------------------- invariants
\* C06: the index is exactly the index of the entries
IdxConsistent(o) ==
  /\ DOMAIN o.idx = KeysOf(o.entries)
  /\ \A k \in DOMAIN o.idx :
       LET p == Positions(o.entries, k) IN
       /\ o.idx[k].rep = p[1]
       /\ o.idx[k].other = Tail(p)

\* the queries as the implementation answers them (through idx) ...
QIndexOf(o, k)   == IF k \in DOMAIN o.idx THEN o.idx[k].rep ELSE -1
QRedundant(o, k) == IF k \in DOMAIN o.idx /\ o.idx[k].other # <<>> THEN Head(o.idx[k].other) ELSE -1
QIndexesOf(o, k) == IF k \in DOMAIN o.idx THEN <<o.idx[k].rep>> \o o.idx[k].other ELSE <<>>
\* ... equal a linear scan of the entries
QueriesAreScans(o, keys) ==
  \A k \in keys :
     /\ QIndexesOf(o, k) = Positions(o.entries, k)
     /\ (QIndexOf(o, k) # -1) = HasKey(o.entries, k)
     /\ QRedundant(o, k) = (IF Len(Positions(o.entries, k)) >= 2 THEN Positions(o.entries, k)[2] ELSE -1)

\* buckets as a list sorted by representative (the form the hook dump is compared in)
IdxList(idx) ==
  LET reps == {idx[k].rep : k \in DOMAIN idx}
      RECURSIVE asc(_)
      asc(S) == IF S = {} THEN <<>>
                ELSE LET m == CHOOSE x \in S : \A y \in S : x <= y
                         k == CHOOSE k \in DOMAIN idx : idx[k].rep = m
                     IN <<<<m, idx[k].other>>>> \o asc(S \ {m})
  IN asc(reps)
=============================================================================
