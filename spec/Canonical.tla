------------------------------ MODULE Canonical ------------------------------
(***************************************************************************)
(* RFC 8785 (JSON Canonicalization Scheme) on the value model:              *)
(*   - members of every object sorted by their keys compared as sequences   *)
(*     of UTF-16 code units (section 3.2.3),                                *)
(*   - every number replaced by its ECMAScript rendering (Decimal!CanonNum  *)
(*     decides renderings; here a rendering function Rend is a parameter),  *)
(*   - strings / literals untouched; the text is the compact print.         *)
(***************************************************************************)
EXTENDS JsonValue, JsonPrinter, JsonObject

Utf16Seq(k) == Concat([i \in 1..Len(k) |-> Utf16(k[i])])
Utf16Less(a, b) == SeqLess(Utf16Seq(a), Utf16Seq(b))

RECURSIVE InsertByKey(_, _)
InsertByKey(s, x) == IF s = <<>> THEN <<x>>
                     ELSE IF Utf16Less(x.k, Head(s).k) THEN <<x>> \o s
                     ELSE <<Head(s)>> \o InsertByKey(Tail(s), x)
RECURSIVE SortByKey(_)
SortByKey(es) == IF es = <<>> THEN <<>> ELSE InsertByKey(SortByKey(SubSeq(es, 1, Len(es) - 1)), es[Len(es)])

\* Rend: a function from number spellings to their canonical renderings
RECURSIVE Canon(_, _)
Canon(v, Rend) ==
  CASE v.t = "num" -> VNum(Rend[v.num])
    [] v.t = "arr" -> VArr([i \in 1..Len(v.items) |-> Canon(v.items[i], Rend)])
    [] v.t = "obj" -> VObj(SortByKey([i \in 1..Len(v.entries) |-> Entry(v.entries[i].k, Canon(v.entries[i].v, Rend))]))
    [] OTHER -> v

CanonText(v, Rend) == Render(Canon(v, Rend), Compact)

\* no duplicate keys anywhere (I-JSON)
RECURSIVE UniqueKeys(_)
UniqueKeys(v) ==
  CASE v.t = "arr" -> \A i \in 1..Len(v.items) : UniqueKeys(v.items[i])
    [] v.t = "obj" -> /\ \A i, j \in 1..Len(v.entries) : i # j => v.entries[i].k # v.entries[j].k
                      /\ \A i \in 1..Len(v.entries) : UniqueKeys(v.entries[i].v)
    [] OTHER -> TRUE

\* all permutations of a sequence
RECURSIVE Perms(_)
Perms(s) == IF s = <<>> THEN {<<>>}
            ELSE UNION {{<<s[i]>> \o p : p \in Perms(SubSeq(s, 1, i - 1) \o SubSeq(s, i + 1, Len(s)))} : i \in 1..Len(s)}

\* every value obtained from v by permuting the members of its objects at every level
RECURSIVE Shuffles(_)
Shuffles(v) ==
  CASE v.t = "arr" ->
         LET RECURSIVE prod(_)
             prod(i) == IF i > Len(v.items) THEN {<<>>}
                        ELSE {<<x>> \o rest : x \in Shuffles(v.items[i]), rest \in prod(i + 1)}
         IN {VArr(xs) : xs \in prod(1)}
    [] v.t = "obj" ->
         LET RECURSIVE prod(_)
             prod(i) == IF i > Len(v.entries) THEN {<<>>}
                        ELSE {<<Entry(v.entries[i].k, x)>> \o rest : x \in Shuffles(v.entries[i].v), rest \in prod(i + 1)}
         IN UNION {{VObj(p) : p \in Perms(es)} : es \in prod(1)}
    [] OTHER -> {v}
=============================================================================
