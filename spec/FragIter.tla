------------------------------ MODULE FragIter ------------------------------
(***************************************************************************)
(* The two fragment iterators of the crate as explicit state machines       *)
(* (C03: "traversing the resulting value fragment by fragment is likewise   *)
(* iterative"; C11: "fragment i is the i-th fragment of the traversal").    *)
(*                                                                          *)
(*  SubFragments: the DIRECT sub-fragments of a fragment, a double-ended    *)
(*    iterator.  An array's sub-fragments are its items, an object's are    *)
(*    its entries, an entry's are its key then its value, anything else has *)
(*    none.  State: the window [lo, hi] of children not yet yielded.        *)
(*  Traverse: depth-first pre-order over all fragments with an EXPLICIT     *)
(*    stack (no recursion): pop a fragment, push its sub-fragments in       *)
(*    reverse, yield it with the running offset.                            *)
(***************************************************************************)
EXTENDS Integers, Sequences, JsonValue, CodeMapNav

Children(f) ==
  CASE f.fk = "value" /\ f.val.t = "arr" -> [i \in 1..Len(f.val.items) |-> FragV(f.val.items[i])]
    [] f.fk = "value" /\ f.val.t = "obj" -> [i \in 1..Len(f.val.entries) |-> FragE(f.val.entries[i])]
    [] f.fk = "entry" -> <<FragK(f.ent.k), FragV(f.ent.v)>>
    [] OTHER -> <<>>

Rev(s) == [i \in 1..Len(s) |-> s[Len(s) + 1 - i]]

\* ---- SubFragments -------------------------------------------------------
None == [fk |-> "none"]
SubInit(f) == [c |-> Children(f), lo |-> 1, hi |-> Len(Children(f))]
SubDone(s) == s.lo > s.hi
\* next(): yield the first remaining child
SubFront(s) == IF SubDone(s) THEN [s |-> s, y |-> None] ELSE [s |-> [s EXCEPT !.lo = @ + 1], y |-> s.c[s.lo]]
\* next_back(): yield the last remaining child
SubBack(s)  == IF SubDone(s) THEN [s |-> s, y |-> None] ELSE [s |-> [s EXCEPT !.hi = @ - 1], y |-> s.c[s.hi]]

\* ---- Traverse -----------------------------------------------------------
TrInit(v) == [off |-> 0, stack |-> <<FragV(v)>>]
TrDone(t) == t.stack = <<>>
TrStep(t) == LET top == t.stack[Len(t.stack)] IN
  [t |-> [off |-> t.off + 1, stack |-> SubSeq(t.stack, 1, Len(t.stack) - 1) \o Rev(Children(top))],
   y |-> <<t.off, top>>]

RECURSIVE TrRun(_)
TrRun(t) == IF TrDone(t) THEN <<>> ELSE LET r == TrStep(t) IN <<r.y>> \o TrRun(r.t)

\* the machine yields exactly the pre-order fragment list, numbered from 0
TraverseIsPreorder(v) ==
  LET ys == TrRun(TrInit(v)) fr == Fragments(v) IN
  /\ Len(ys) = Len(fr)
  /\ \A i \in 1..Len(fr) : ys[i] = <<i - 1, fr[i]>>

\* the volume of a fragment = 1 + the volumes of its sub-fragments (what get_fragment subtracts)
VolumeIsSum(f) == f.vol = 1 + SumSeq([i \in 1..Len(Children(f)) |-> Children(f)[i].vol])
=============================================================================
