----------------------------- MODULE JsonAccess -----------------------------
(***************************************************************************)
(* The accessor layer of the value model: everything a user can ask a       *)
(* Value, an object Entry or a fragment reference WITHOUT looking inside    *)
(* the implementation - written from the rustdoc of the methods.            *)
(*                                                                          *)
(*   kind / is_kind / is_null ... is_object / is_empty_array_or_object      *)
(*   as_X / as_X_mut / into_X : the payload when the value is of kind X,    *)
(*                              nothing otherwise                            *)
(*   force_as_array           : the items of an array, or the one-element   *)
(*                              sequence holding the value itself            *)
(*   take                     : returns the value and leaves null behind     *)
(*   From<bool|number|string|array|object> : the value of that kind          *)
(*   FragmentRef predicates, strip, and the shape of each fragment           *)
(*   Entry accessors          : key, value, pair, as_ref                      *)
(*                                                                          *)
(* C20 cites the first line ("the kind reported for a value matches its     *)
(* variant"); the rest goes beyond the listed properties (aspects X.access) *)
(* and is what C02 / C11 observers rely on when they read parsed values.    *)
(***************************************************************************)
EXTENDS JsonValue

None == [some |-> FALSE]
Some(x) == [some |-> TRUE, val |-> x]

KindIndex(v) == CHOOSE i \in 1..6 : Kinds[i] = KindOf(v)

\* answers of the six is_X predicates, in the documented kind order
IsFlags(v) == [i \in 1..6 |-> KindIndex(v) = i]

IsEmptyContainer(v) == (v.t = "arr" /\ v.items = <<>>) \/ (v.t = "obj" /\ v.entries = <<>>)

AsBool(v)   == IF v.t = "bool" THEN Some(v.b) ELSE None
AsNumber(v) == IF v.t = "num" THEN Some(v.num) ELSE None
AsString(v) == IF v.t = "str" THEN Some(v.str) ELSE None
AsArray(v)  == IF v.t = "arr" THEN Some(v.items) ELSE None
AsObject(v) == IF v.t = "obj" THEN Some(v.entries) ELSE None
ForceAsArray(v) == IF v.t = "arr" THEN v.items ELSE <<v>>

\* take: <<returned value, what is left in place>>
Take(v) == <<v, VNull>>

Access(v) ==
  [kind |-> KindIndex(v), is |-> IsFlags(v), empty |-> IsEmptyContainer(v),
   bool |-> AsBool(v), num |-> AsNumber(v), str |-> AsString(v), arr |-> AsArray(v), obj |-> AsObject(v),
   force |-> ForceAsArray(v), take |-> Take(v)]

\* fragment references: <<is_entry, is_key, is_value, is_null, is_number, is_string, is_array, is_object>>
FragFlags(f) ==
  <<f.fk = "entry", f.fk = "key", f.fk = "value",
    f.fk = "value" /\ f.val.t = "null", f.fk = "value" /\ f.val.t = "num", f.fk = "value" /\ f.val.t = "str",
    f.fk = "value" /\ f.val.t = "arr", f.fk = "value" /\ f.val.t = "obj">>
\* number of direct sub-fragments
FragArity(f) == CASE f.fk = "entry" -> 2
                  [] f.fk = "key" -> 0
                  [] f.val.t = "arr" -> Len(f.val.items)
                  [] f.val.t = "obj" -> Len(f.val.entries)
                  [] OTHER -> 0
FragAccess(v) == LET fr == Fragments(v) IN [i \in 1..Len(fr) |-> [flags |-> FragFlags(fr[i]), arity |-> FragArity(fr[i])]]

\* At most one is_X holds, and it is the one of the kind
THEOREM \A v : \A i, j \in 1..6 : (IsFlags(v)[i] /\ IsFlags(v)[j]) => i = j
=============================================================================
