------------------------------- MODULE Chars -------------------------------
(***************************************************************************)
(* Characters are Unicode code points, i.e. naturals 0..0x10FFFF.  The     *)
(* end of input is the pseudo character EOF = -1.  Everything the JSON     *)
(* grammar (RFC 8259) and the UTF-8 / UTF-16 encodings distinguish is      *)
(* defined here once.                                                      *)
(***************************************************************************)
EXTENDS Integers, Sequences

EOF == -1

QUOTE   == 34     \* "
BSLASH  == 92     \* \
SLASH   == 47     \* /
LBRACK  == 91     \* [
RBRACK  == 93     \* ]
LBRACE  == 123    \* {
RBRACE  == 125    \* }
COMMA   == 44
COLON   == 58
MINUS   == 45
PLUS    == 43
DOT     == 46
ZERO    == 48
REPL    == 65533  \* U+FFFD REPLACEMENT CHARACTER

\* RFC 8259 section 2: ws = *( %x20 / %x09 / %x0A / %x0D )
IsWs(c) == c \in {32, 9, 10, 13}

IsDigit(c)   == c \in 48..57
IsDigit19(c) == c \in 49..57
IsExpChar(c) == c \in {69, 101}                  \* E e
IsSign(c)    == c \in {43, 45}
IsHexDigit(c) == c \in 48..57 \/ c \in 65..70 \/ c \in 97..102
HexVal(c) == IF c \in 48..57 THEN c - 48
             ELSE IF c \in 65..70 THEN c - 55
             ELSE IF c \in 97..102 THEN c - 87 ELSE -1

\* RFC 8259 section 7: unescaped = %x20-21 / %x23-5B / %x5D-10FFFF ; the
\* control characters U+0000..U+001F must be escaped.
IsControl(c) == c \in 0..31

IsHigh(c) == c \in 55296..56319      \* D800..DBFF
IsLow(c)  == c \in 56320..57343      \* DC00..DFFF
IsSurrogate(c) == c \in 55296..57343
IsScalar(c) == c \in 0..1114111 /\ ~IsSurrogate(c)
Combine(h, l) == 65536 + (h - 55296) * 1024 + (l - 56320)

Utf8Len(c) == IF c < 128 THEN 1 ELSE IF c < 2048 THEN 2 ELSE IF c < 65536 THEN 3 ELSE 4

\* UTF-16 code units of a scalar value
Utf16(c) == IF c < 65536 THEN <<c>>
            ELSE <<55296 + ((c - 65536) \div 1024), 56320 + ((c - 65536) % 1024)>>

\* The UTF-8 encoding of a scalar value (Unicode 3.9, Table 3-6)
Utf8(c) == IF c < 128 THEN <<c>>
           ELSE IF c < 2048 THEN <<192 + (c \div 64), 128 + (c % 64)>>
           ELSE IF c < 65536 THEN <<224 + (c \div 4096), 128 + ((c \div 64) % 64), 128 + (c % 64)>>
           ELSE <<240 + (c \div 262144), 128 + ((c \div 4096) % 64), 128 + ((c \div 64) % 64), 128 + (c % 64)>>

\* Escape letters of RFC 8259 section 7 and the characters they denote.
\*   \" \\ \/ \b \f \n \r \t
EscLetters == {34, 92, 47, 98, 102, 110, 114, 116}
EscValue(c) == CASE c = 34 -> 34 [] c = 92 -> 92 [] c = 47 -> 47
                 [] c = 98 -> 8 [] c = 102 -> 12 [] c = 110 -> 10
                 [] c = 114 -> 13 [] c = 116 -> 9

\* lower-case hexadecimal digit (as a character) of a value 0..15
HexChar(d) == IF d < 10 THEN 48 + d ELSE 87 + d

RECURSIVE SeqSum(_)
SeqSum(s) == IF s = <<>> THEN 0 ELSE Head(s) + SeqSum(Tail(s))

\* byte length of a character sequence in UTF-8
RECURSIVE Utf8LenOfFrom(_, _)
Utf8LenOfFrom(s, i) == IF i > Len(s) THEN 0 ELSE Utf8Len(s[i]) + Utf8LenOfFrom(s, i + 1)
Utf8LenOf(s) == Utf8LenOfFrom(s, 1)
=============================================================================
