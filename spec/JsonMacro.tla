------------------------------ MODULE JsonMacro ------------------------------
(***************************************************************************)
(* The json! macro as a token muncher (C19): one action per macro rule,     *)
(* guarded by the token pattern, in the rule order of macro_rules! (the     *)
(* first matching rule wins).                                                *)
(*                                                                          *)
(* Tokens (token trees):                                                     *)
(*   [k |-> "null"] "true" "false"        the keywords                       *)
(*   [k |-> "lit", v |-> value]           a literal; v is the JSON value the *)
(*                                        Rust literal converts to           *)
(*   [k |-> "expr", v |-> value]          an opaque Rust expression of type  *)
(*                                        Value (value position)             *)
(*   [k |-> "ktok", key |-> cps or <<>>]  a token of a key expression; the   *)
(*                                        first one carries the key          *)
(*   [k |-> "comma"] [k |-> "colon"]                                          *)
(*   [k |-> "bracket" | "brace" | "paren", ts |-> tokens]                    *)
(*                                                                          *)
(* Array muncher state:  [elems, sep, rest]    sep = the accumulated list    *)
(*   ends with a comma (or is empty), i.e. a new element may be pushed.      *)
(* Object muncher state: [elems, sep, key, rest].                            *)
(* A state with no applicable rule is a compile error ("stuck").             *)
(***************************************************************************)
EXTENDS JsonValue, Sequences, Integers

Stuck == [t |-> "stuck"]
Finished == [t |-> "finished"]

IsValueStart(tok) == tok.k \in {"null", "true", "false", "lit", "bracket", "brace"}

RECURSIVE EvalValue(_)
RECURSIVE ArrayRun(_)
RECURSIVE ObjectRun(_)

\* the value of one token tree in value position (main rules of the macro)
EvalValue(tok) ==
  CASE tok.k = "null" -> VNull
    [] tok.k = "true" -> VBool(TRUE)
    [] tok.k = "false" -> VBool(FALSE)
    [] tok.k = "lit" -> tok.v                                  \* Value::try_from(lit).unwrap()
    [] tok.k = "expr" -> tok.v                                 \* Value::from(expr)
    [] tok.k = "bracket" -> IF tok.ts = <<>> THEN VArr(<<>>)    \* ([]) => empty vec
                            ELSE ArrayRun([elems |-> <<>>, sep |-> TRUE, rest |-> tok.ts])
    [] tok.k = "brace" -> IF tok.ts = <<>> THEN VObj(<<>>)      \* ({}) => Object::new()
                          ELSE ObjectRun([elems |-> <<>>, sep |-> TRUE, key |-> <<>>, rest |-> tok.ts])
    [] OTHER -> Stuck

Push(s, v) == IF v = Stuck THEN Stuck ELSE [s EXCEPT !.elems = Append(@, v), !.sep = FALSE]

\* ---------------------------------------------------------------- @array
ArrayStep(s) ==
  IF s.rest = <<>> THEN Finished                                             \* rules 1, 2
  ELSE LET t == Head(s.rest) r == Tail(s.rest) IN
       IF s.sep /\ IsValueStart(t) THEN [Push(s, EvalValue(t)) EXCEPT !.rest = r]            \* rules 3-8
       ELSE IF s.sep /\ t.k = "expr" /\ r # <<>> /\ Head(r).k = "comma"                     \* rule 9: expr ,
            THEN [s EXCEPT !.elems = Append(@, t.v), !.sep = TRUE, !.rest = Tail(r)]
       ELSE IF s.sep /\ t.k = "expr" /\ r = <<>> THEN [Push(s, t.v) EXCEPT !.rest = <<>>]     \* rule 10: last expr
       ELSE IF (~s.sep) /\ t.k = "comma" THEN [s EXCEPT !.sep = TRUE, !.rest = r]            \* rule 11
       ELSE Stuck                                                                              \* rule 12: unexpected token

ArrayRun(s) ==
  IF s = Stuck THEN Stuck
  ELSE LET n == ArrayStep(s) IN
       IF n = Finished THEN VArr(s.elems) ELSE IF n = Stuck THEN Stuck
       ELSE IF \E i \in 1..Len(n.elems) : n.elems[i] = Stuck THEN Stuck ELSE ArrayRun(n)

\* --------------------------------------------------------------- @object
\* the key denoted by the munched key tokens: a literal, or an expression (its first token carries the key)
KeyOf(key) == IF Len(key) = 1 /\ key[1].k = "lit" /\ key[1].v.t = "str" THEN key[1].v.str
              ELSE IF key # <<>> /\ key[1].k = "ktok" THEN key[1].key
              ELSE IF Len(key) = 1 /\ key[1].k = "paren" /\ key[1].ts # <<>> /\ key[1].ts[1].k = "ktok" THEN key[1].ts[1].key
              ELSE <<-1>>

PushEntry(s, v, r) ==
  IF v = Stuck \/ KeyOf(s.key) = <<-1>> THEN Stuck
  ELSE [s EXCEPT !.elems = Append(@, Entry(KeyOf(s.key), v)), !.sep = FALSE, !.key = <<>>, !.rest = r]

ObjectStep(s) ==
  IF s.key = <<>> /\ s.rest = <<>> THEN Finished                                   \* done (with / without trailing comma)
  ELSE IF s.rest = <<>> THEN Stuck                                               \* missing colon and value
  ELSE LET t == Head(s.rest) r == Tail(s.rest) IN
       IF s.sep /\ s.key # <<>> /\ t.k = "colon" THEN
            \* the value rules: (: null ...) (: true ...) (: lit ...) (: [..] ...) (: {..} ...) (: expr , ...) (: expr)
            IF r = <<>> THEN Stuck                                               \* missing value
            ELSE LET v == Head(r) rr == Tail(r) IN
                 IF IsValueStart(v) THEN PushEntry(s, EvalValue(v), rr)
                 ELSE IF v.k = "expr" /\ rr # <<>> /\ Head(rr).k = "comma"
                      THEN LET p == PushEntry(s, v.v, Tail(rr)) IN IF p = Stuck THEN Stuck ELSE [p EXCEPT !.sep = TRUE]
                 ELSE IF v.k = "expr" /\ rr = <<>> THEN PushEntry(s, v.v, <<>>)
                 ELSE Stuck
       ELSE IF (~s.sep) /\ s.key = <<>> /\ t.k = "comma" THEN [s EXCEPT !.sep = TRUE, !.rest = r]   \* comma after an entry
       ELSE IF ~s.sep THEN Stuck                                                 \* an entry must be followed by a comma
       ELSE IF s.key = <<>> /\ t.k = "colon" THEN Stuck                          \* misplaced colon
       ELSE IF t.k = "comma" THEN Stuck                                          \* comma inside a key
       ELSE IF s.key = <<>> /\ t.k = "paren" /\ r # <<>> /\ Head(r).k = "colon"  \* fully parenthesized key
            THEN [s EXCEPT !.key = <<t>>, !.rest = r]
       ELSE [s EXCEPT !.key = Append(@, t), !.rest = r]                           \* munch a token into the key

ObjectRun(s) ==
  IF s = Stuck THEN Stuck
  ELSE LET n == ObjectStep(s) IN
       IF n = Finished THEN VObj(s.elems) ELSE IF n = Stuck THEN Stuck ELSE ObjectRun(n)

\* a value anywhere inside is stuck => the whole expansion fails
RECURSIVE Poisoned(_)
Poisoned(v) == IF v = Stuck THEN TRUE
               ELSE CASE v.t = "arr" -> \E i \in 1..Len(v.items) : Poisoned(v.items[i])
                      [] v.t = "obj" -> \E i \in 1..Len(v.entries) : Poisoned(v.entries[i].v)
                      [] OTHER -> FALSE

MacroValue(tok) == LET v == EvalValue(tok) IN IF Poisoned(v) THEN Stuck ELSE v
=============================================================================
