---------------------------- MODULE MC_Canonical ----------------------------
(***************************************************************************)
(* C09 / C10 on the bounded domain: small I-JSON values whose keys come     *)
(* from the region where UTF-16 order and code-point order differ (U+E000.. *)
(* U+FFFF versus the supplementary planes), prefixes, the empty key, and    *)
(* whose numbers come from a table that TLC certifies row by row with       *)
(* exact arithmetic (TableOK).  For every base value, EVERY permutation of  *)
(* the members at every level is a state; its canonical text is printed as  *)
(* a replay vector.  Checked: permutation invariance, idempotence, strict   *)
(* UTF-16 ordering of the result, numerically equal spellings render alike. *)
(***************************************************************************)
EXTENDS Canonical, Decimal, CanonTable, TLC, Json

Rows == {NumTable[i] : i \in 1..Len(NumTable)}
Rend == [sp \in {r.sp : r \in Rows} |-> (CHOOSE r \in Rows : r.sp = sp).r]

\* every row of the table is certified: nearest double, shortest / closest digits, layout
TableOK == \A r \in Rows : CanonNum(r.sp, r.m, r.e, r.r) = ""
\* renderings are fixed points, numerically equal spellings have the same rendering
TableClosed == \A r \in Rows : r.r \in DOMAIN Rend /\ Rend[r.r] = r.r
TableRespell == \A a, b \in Rows : SameValue(a.sp, b.sp) => a.r = b.r
ASSUME TableOK /\ TableClosed /\ TableRespell

N(i) == VNum(NumTable[i].sp)
E(k, x) == Entry(k, x)
KA == <<97>>  KB == <<98>>  KAA == <<97, 97>>  KEmpty == <<>>
KE9 == <<233>>  KE000 == <<57344>>  KFFFF == <<65535>>  K10000 == <<65536>>  K10FFFF == <<1114111>>
\* supplementary characters sharing their high surrogate (D83D), followed by tails that order the other way; and the same
\* with characters whose first units differ
KGrinB == <<128512, 98>>  KGrinA2 == <<128513, 97>>  KGrin == <<128512>>  KGrinE000 == <<128512, 57344>>  KGrin2FFFF == <<128513, 65535>>
\* keys sharing a long prefix (16, 17 units) before the characters whose UTF-16 and code-point orders differ
P16 == [i \in 1..16 |-> 97]
KLongE == P16 \o <<57344>>  KLongS == P16 \o <<65536>>  KLongF == P16 \o <<97, 65535>>  KLongT == P16 \o <<97, 1114111>>
KMix == <<97, 65536>>  KMix2 == <<97, 65535>>  KCtl == <<10>>  KQuote == <<34>>

Bases == {
  VObj(<<E(KA, N(3)), E(KB, N(7)), E(KAA, N(9))>>),
  VObj(<<E(KE000, N(1)), E(K10000, N(2)), E(KFFFF, N(5))>>),
  VObj(<<E(K10FFFF, VNull), E(KE9, VBool(TRUE)), E(KEmpty, N(10)), E(KFFFF, N(11))>>),
  VObj(<<E(KMix, N(14)), E(KMix2, N(15)), E(KA, N(16))>>),
  VObj(<<E(KCtl, N(19)), E(KQuote, VStr(<<8232, 34, 92>>)), E(KB, N(21))>>),
  VObj(<<E(KB, VObj(<<E(K10000, N(22)), E(KE000, N(23))>>)), E(KA, VArr(<<N(24), VObj(<<E(KB, N(25)), E(KA, N(26))>>)>>))>>),
  VArr(<<VObj(<<E(KFFFF, N(27)), E(K10000, N(28))>>), N(29), N(30), N(31), N(32)>>),
  VObj(<<E(KA, N(33)), E(KB, N(34)), E(KE9, N(35)), E(KAA, N(36))>>),
  VObj(<<E(KA, N(37)), E(KB, N(38)), E(KAA, N(39))>>),
  VObj(<<E(KB, N(40)), E(KA, N(41)), E(KEmpty, N(12)), E(KE000, N(13))>>),
  VObj(<<E(KA, N(2)), E(KB, N(17)), E(KAA, N(18))>>),
  VObj(<<E(KA, N(4)), E(KB, N(6)), E(KAA, N(8)), E(KEmpty, N(20))>>),
  VObj(<<E(KGrinB, N(1)), E(KGrinA2, N(2)), E(KGrin, N(3))>>),
  VObj(<<E(KGrin2FFFF, N(5)), E(KGrinE000, N(7)), E(K10000, N(9)), E(KFFFF, N(10))>>),
  VObj(<<E(KLongS, N(1)), E(KLongE, N(2)), E(KLongT, N(3)), E(KLongF, N(5))>>),
  VObj(<<>>), VArr(<<>>), N(1)
}

VARIABLES base, v
vars == <<base, v>>
KInit == base \in Bases /\ v \in Shuffles(base)
KNext == UNCHANGED vars
KSpec == KInit /\ [][KNext]_vars

Dump == PrintT(ToJson([k |-> "canon", v |-> v, canon |-> Canon(v, Rend), text |-> CanonText(v, Rend)]))

PermInvariant == Canon(v, Rend) = Canon(base, Rend)
Idempotent == Canon(Canon(v, Rend), Rend) = Canon(v, Rend)
RECURSIVE SortedEverywhere(_)
SortedEverywhere(x) ==
  CASE x.t = "arr" -> \A i \in 1..Len(x.items) : SortedEverywhere(x.items[i])
    [] x.t = "obj" -> /\ \A i \in 1..(Len(x.entries) - 1) : Utf16Less(x.entries[i].k, x.entries[i + 1].k)
                      /\ \A i \in 1..Len(x.entries) : SortedEverywhere(x.entries[i].v)
    [] OTHER -> TRUE
Sorted == SortedEverywhere(Canon(v, Rend))
=============================================================================
