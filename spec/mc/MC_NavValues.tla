---------------------------- MODULE MC_NavValues ----------------------------
(***************************************************************************)
(* C11 / C05: navigation expectations for EVERY small value (not every      *)
(* short text): all values of nesting depth <= MaxDepth with at most MaxWidth     *)
(* children per container over the given keys (repeated keys included) and  *)
(* leaves.  The document is the value printed by the printer specification  *)
(* with spacing (so that byte positions, fragment indices and offsets all   *)
(* differ); the expected outcome is the parser specification run on that    *)
(* text, the navigation expectations are CodeMapNav!Nav of the value.       *)
(* Shapes the token trees do not reach within their length bound are all    *)
(* here: arrays whose items are arrays holding non-empty objects followed   *)
(* by further siblings, keys occurring two or three times with the first    *)
(* occurrence not in first position, empty containers as entry values ...   *)
(* Each state is replayed as an ordinary "parse" vector.                    *)
(***************************************************************************)
EXTENDS JsonParser, CodeMapNav, JsonPrinter, TLC, Json

CONSTANTS MaxDepth, MaxWidth, Keys, Leaves

ValueSet == Values(MaxDepth, MaxWidth, Keys, Leaves, 0)

\* TLC evaluates invariants on initial states in its main thread; `go` moves the work into successor states, which the
\* workers process in parallel
VARIABLES v, go
vars == <<v, go>>
VInit == v \in ValueSet /\ go = FALSE
VNext == ~go /\ go' = TRUE /\ v' = v
VSpec == VInit /\ [][VNext]_vars

Spaced == [Inline EXCEPT !.obcol = 1, !.aem = 1]
Text == Render(v, Spaced)
F == Run(Text, Strict)

Dump == go => PrintT(ToJson([k |-> "parse", w |-> Text, o |-> <<FALSE, FALSE>>, out |-> Outcome(F), nav |-> Nav(v)]))

\* the two specifications agree: the printed text parses back to the value, with the pre-order code map
ParseOfPrint == go => (F.mode = "done" /\ F.val = v /\ CodeMapMatchesValue(F))
=============================================================================
