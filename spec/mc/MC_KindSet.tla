----------------------------- MODULE MC_KindSet -----------------------------
(***************************************************************************)
(* Exhaustive model of KindSet: all 64 sets, every interleaving of front /  *)
(* back iteration steps (including steps on the exhausted iterator), and -  *)
(* in the initial states - all operand pairs and all renderings.            *)
(***************************************************************************)
EXTENDS KindSet, TLC, Json

VARIABLES orig, rest, hist, yielded
vars == <<orig, rest, hist, yielded>>

SetSeq(S) == Ascending(S)

KInit == /\ orig \in Sets
         /\ rest = orig
         /\ hist = <<>>
         /\ yielded = <<>>

Front == LET r == NextFront(rest) IN
         /\ rest' = r.rest /\ hist' = Append(hist, "f") /\ yielded' = Append(yielded, r.y) /\ orig' = orig
Back  == LET r == NextBack(rest) IN
         /\ rest' = r.rest /\ hist' = Append(hist, "b") /\ yielded' = Append(yielded, r.y) /\ orig' = orig

\* nth(k) / nth_back(k), k = 1, 2 (k = 0 is next / next_back): "n1" "n2" "m1" "m2"
Skip(k) == LET r == Nth(rest, k) IN
           /\ rest' = r.rest /\ hist' = Append(hist, IF k = 1 THEN "n1" ELSE "n2") /\ yielded' = Append(yielded, r.y) /\ orig' = orig
SkipBack(k) == LET r == NthBack(rest, k) IN
           /\ rest' = r.rest /\ hist' = Append(hist, IF k = 1 THEN "m1" ELSE "m2") /\ yielded' = Append(yielded, r.y) /\ orig' = orig

\* one extra step on the exhausted iterator is explored (fused behaviour)
Live == IF rest # {} \/ hist = <<>> THEN TRUE ELSE yielded[Len(yielded)] # 0
KNext == Live /\ (Front \/ Back \/ \E k \in 1..2 : Skip(k) \/ SkipBack(k))
KSpec == KInit /\ [][KNext]_vars

DumpIter == PrintT(ToJson([k |-> "kind_iter", orig |-> SetSeq(orig), hist |-> hist, yielded |-> yielded,
                           size |-> Cardinality(rest), cons |-> Consumers(rest)]))

DumpSet == hist = <<>> =>
  /\ PrintT(ToJson([k |-> "kind_set", s |-> SetSeq(orig), len |-> Cardinality(orig), empty |-> (orig = {}),
                    display |-> Display(orig), disj |-> Disjunction(orig), conj |-> Conjunction(orig)]))
  /\ \A b \in Sets : PrintT(ToJson([k |-> "kind_ops", a |-> SetSeq(orig), b |-> SetSeq(b),
                                     or |-> SetSeq(Or(orig, b)), and |-> SetSeq(And(orig, b))]))

\* set semantics of the iterator
IsF(h) == h \in {"f", "n1", "n2"}
YieldedNonZero == {yielded[i] : i \in 1..Len(yielded)} \ {0}
IterSound == /\ (YieldedNonZero \cup rest) \subseteq orig       \* (skipped elements are in neither)
             /\ YieldedNonZero \cap rest = {}
             \* front yields ascend, back yields descend, fronts stay below backs
             /\ \A i, j \in 1..Len(yielded) :
                  (i < j /\ yielded[i] # 0 /\ yielded[j] # 0) =>
                     /\ (IsF(hist[i]) /\ IsF(hist[j])) => yielded[i] < yielded[j]
                     /\ (~IsF(hist[i]) /\ ~IsF(hist[j])) => yielded[i] > yielded[j]
                     /\ (IsF(hist[i]) /\ ~IsF(hist[j])) => yielded[i] < yielded[j]
                     /\ (~IsF(hist[i]) /\ IsF(hist[j])) => yielded[i] > yielded[j]
             \* nothing is yielded only when the iterator is left exhausted
             /\ \A i \in 1..Len(yielded) : yielded[i] = 0 => i = Len(yielded) /\ rest = {}
=============================================================================
