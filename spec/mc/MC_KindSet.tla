----------------------------- MODULE MC_KindSet -----------------------------
(***************************************************************************)
(* Exhaustive model of KindSet: all 64 sets, every interleaving of front /  *)
(* back iteration steps (including steps on the exhausted iterator), and -  *)
(* in the initial states - all operand pairs and all renderings.            *)
(***************************************************************************)
EXTENDS KindSet, TLC, Json

VARIABLES orig, rest, hist, yielded
vars == <<orig, rest, hist, yielded>>

SetSeq(S) == Ascending(S)

KInit == /\ orig \in Sets
         /\ rest = orig
         /\ hist = <<>>
         /\ yielded = <<>>

Front == LET r == NextFront(rest) IN
         /\ rest' = r.rest /\ hist' = Append(hist, "f") /\ yielded' = Append(yielded, r.y) /\ orig' = orig
Back  == LET r == NextBack(rest) IN
         /\ rest' = r.rest /\ hist' = Append(hist, "b") /\ yielded' = Append(yielded, r.y) /\ orig' = orig

\* one extra step on the exhausted iterator is explored (fused behaviour)
KNext == Len(hist) <= Cardinality(orig) /\ (Front \/ Back)
KSpec == KInit /\ [][KNext]_vars

DumpIter == PrintT(ToJson([k |-> "kind_iter", orig |-> SetSeq(orig), hist |-> hist, yielded |-> yielded,
                           size |-> Cardinality(rest)]))

DumpSet == hist = <<>> =>
  /\ PrintT(ToJson([k |-> "kind_set", s |-> SetSeq(orig), len |-> Cardinality(orig), empty |-> (orig = {}),
                    display |-> Display(orig), disj |-> Disjunction(orig), conj |-> Conjunction(orig)]))
  /\ \A b \in Sets : PrintT(ToJson([k |-> "kind_ops", a |-> SetSeq(orig), b |-> SetSeq(b),
                                     or |-> SetSeq(Or(orig, b)), and |-> SetSeq(And(orig, b))]))

\* set semantics of the iterator
YieldedNonZero == {yielded[i] : i \in 1..Len(yielded)} \ {0}
IterSound == /\ YieldedNonZero \cup rest = orig
             /\ YieldedNonZero \cap rest = {}
             \* front yields ascend, back yields descend, fronts stay below backs
             /\ \A i, j \in 1..Len(yielded) :
                  (i < j /\ yielded[i] # 0 /\ yielded[j] # 0) =>
                     /\ (hist[i] = "f" /\ hist[j] = "f") => yielded[i] < yielded[j]
                     /\ (hist[i] = "b" /\ hist[j] = "b") => yielded[i] > yielded[j]
                     /\ (hist[i] = "f" /\ hist[j] = "b") => yielded[i] < yielded[j]
                     /\ (hist[i] = "b" /\ hist[j] = "f") => yielded[i] > yielded[j]
             /\ \A i \in 1..Len(yielded) : yielded[i] = 0 => i > Cardinality(orig)
=============================================================================
