---------------------------- MODULE MC_ParserGraph ----------------------------
(***************************************************************************)
(* GRAPH model of the parser: the control-state graph of the push-down      *)
(* automaton, explored completely for a stack of at most MaxDepth open      *)
(* containers, over an alphabet holding a representative of every character *)
(* class the specification distinguishes.  The VIEW keeps only the control  *)
(* part of the state (mode, sub-state, remaining literal characters, the    *)
(* class of the partially read \uXXXX escape, whether a high surrogate is   *)
(* pending, key / value position, and for every open container its kind,    *)
(* whether it is still empty and whether a key is pending) and hides the    *)
(* text read so far, byte positions, the code map and the values built.     *)
(* TLC therefore visits every control state once, reached by a shortest     *)
(* input, and generates EVERY transition (control state, character) out of  *)
(* it.  Each generated transition is printed - inside the action, so also   *)
(* the ones leading to an already known control state or to an error - as   *)
(* replay vectors for the real parser:                                      *)
(*    the input read so far + the character            (outcome at EOF)     *)
(*    the same followed by the completion of the state (an accepted text)   *)
(* i.e. one implementation test per transition of the state graph, on       *)
(* inputs far longer than the tree models reach (a transition cover of the  *)
(* control graph; the tree models are exhaustive on short texts).           *)
(***************************************************************************)
EXTENDS JsonParser, CodeMapNav, TLC, Json

CONSTANTS Alphabet, MaxDepth, OptSet

VARIABLES w, st, o
vars == <<w, st, o>>

\* the class of a partially read escape: what the remaining digits can still make of it
AccClass(s) ==
  IF s.mode # "str" \/ s.sub # "hex" THEN "-"
  ELSE IF s.hexn = 0 THEN "any"
  ELSE IF s.hexn = 1 THEN (IF s.acc = 13 THEN "d" ELSE "other")
  ELSE LET top2 == IF s.hexn = 2 THEN s.acc ELSE s.acc \div 16 IN
       IF top2 \in 216..219 THEN "high" ELSE IF top2 \in 220..223 THEN "low" ELSE "other"

FrameView(f) == <<f.kind, f.items = <<>>>>
Ctrl(s) == <<s.mode, s.sub, s.rest, s.hexn, AccClass(s), s.hs # 0, s.isKey,
             [i \in 1..Len(s.stack) |-> FrameView(s.stack[i])],
             IF s.mode = "err" THEN s.err.kind ELSE "">>
View == <<Ctrl(st), o>>

GInit == o \in OptSet /\ w = <<>> /\ st = Init

Emit(inp, f) ==
  PrintT(ToJson(IF f.mode = "done"
                THEN [k |-> "parse", w |-> inp, o |-> <<o.trunc, o.inval>>, out |-> Outcome(f), nav |-> Nav(f.val)]
                ELSE [k |-> "parse", w |-> inp, o |-> <<o.trunc, o.inval>>, out |-> Outcome(f)]))

GNext ==
  /\ st.mode \notin {"err", "done"}
  /\ \E c \in Alphabet :
       /\ (c \in {LBRACK, LBRACE} => Len(st.stack) < MaxDepth)
       /\ LET s1 == Step(st, c, o)
              inp == Append(w, c)
          IN /\ w' = inp
             /\ st' = s1
             /\ Emit(inp, Finish(s1, o))
             /\ (s1.mode # "err" => Emit(inp \o Completion(s1), Finish(RunFrom(s1, Completion(s1), 1, o), o)))
  /\ o' = o

GSpec == GInit /\ [][GNext]_vars

\* design level, on every visited state
Viable == st.mode # "err" => IsViable(st)
OneCharPerStep == st.mode # "err" => st.n = Len(w)
StackIsNesting == st.mode # "err" => Len(st.stack) <= MaxDepth
ErrorAtLastChar == (st.mode = "err" /\ st.err.kind = "unexpected") => st.err.pos = Utf8LenOf(SubSeq(w, 1, Len(w) - 1)) /\ st.err.ch = w[Len(w)]
=============================================================================
