------------------------------- MODULE MC_Wide -------------------------------
(***************************************************************************)
(* Wide values (C08 / C13 / C04 beyond the bounded domain): families        *)
(*   array of n copies of an item / object of n copies of an entry          *)
(* under a fixed option record.  For each family the printed text has the   *)
(* closed form  head \o unit^(n-1) \o tail ; TLC checks the closed form     *)
(* against JsonPrinter!Render for n = 1..NMax (invariant ClosedForm) and     *)
(* prints the family once; the harness builds the value for large n (tens   *)
(* of thousands of children, more than 65535 characters) and compares the   *)
(* real printer's output with the closed form.                              *)
(***************************************************************************)
EXTENDS JsonPrinter, TLC, Json

CONSTANTS NMax, Sizes

Wide(f, n) == IF f.kind = "arr" THEN VArr([i \in 1..n |-> f.item]) ELSE VObj([i \in 1..n |-> Entry(f.key, f.item)])
RECURSIVE Rpt(_, _)
Rpt(s, n) == IF n = 0 THEN <<>> ELSE s \o Rpt(s, n - 1)
Closed(f, n) == f.head \o Rpt(f.unit, n - 1) \o f.tail

Fam(name, kind, key, item, o, head, unit, tail) ==
  [name |-> name, kind |-> kind, key |-> key, item |-> item, o |-> o, head |-> head, unit |-> unit, tail |-> tail]

Zero == VNum(<<48>>)
EStr == VStr(<<233>>)
Families == {
  Fam("array_compact", "arr", <<>>, Zero, Compact, <<91>>, <<48, 44>>, <<48, 93>>),
  Fam("array_inline", "arr", <<>>, Zero, Inline, <<91, 32>>, <<48, 44, 32>>, <<48, 32, 93>>),
  Fam("array_pretty", "arr", <<>>, Zero, [Pretty EXCEPT !.alim = <<"item", 0>>], <<91, 10>>, <<32, 32, 48, 44, 10>>, <<32, 32, 48, 10, 93>>),
  Fam("array_strings_compact", "arr", <<>>, EStr, Compact, <<91>>, <<34, 233, 34, 44>>, <<34, 233, 34, 93>>),
  Fam("object_compact", "obj", <<107>>, VNull, Compact, <<123>>, <<34, 107, 34, 58, 110, 117, 108, 108, 44>>, <<34, 107, 34, 58, 110, 117, 108, 108, 125>>),
  Fam("object_inline_nolimit", "obj", <<107>>, Zero, Inline, <<123, 32>>, <<34, 107, 34, 58, 32, 48, 44, 32>>, <<34, 107, 34, 58, 32, 48, 32, 125>>),
  Fam("array_wide_limit", "arr", <<>>, Zero, [Compact EXCEPT !.alim = <<"width", 1000000000>>], <<91>>, <<48, 44>>, <<48, 93>>)
}

VARIABLES f, n
vars == <<f, n>>
WInit == f \in Families /\ n = 1
WNext == n < NMax /\ n' = n + 1 /\ f' = f
WSpec == WInit /\ [][WNext]_vars

ClosedForm == Render(Wide(f, n), f.o) = Closed(f, n)
Dump == n = NMax => \A size \in Sizes :
  PrintT(ToJson([k |-> "wide", name |-> f.name, kind |-> f.kind, key |-> f.key, item |-> f.item, o |-> f.o,
                 head |-> f.head, unit |-> f.unit, tail |-> f.tail, n |-> size]))
=============================================================================
