----------------------------- MODULE MC_FragIter -----------------------------
(***************************************************************************)
(* Every small value x every fragment of it x EVERY interleaving of         *)
(* next() / next_back() calls on its sub-fragment iterator (until two       *)
(* calls past exhaustion).  Each transition is one replay vector: the       *)
(* harness builds the value, fetches the fragment with get_fragment, makes  *)
(* the same calls on the real SubFragments and compares every yield.        *)
(* Invariants: front yields followed by the reversed back yields are        *)
(* exactly the children, each once (double-ended consistency); the          *)
(* explicit-stack traversal is the pre-order fragment list; volumes add up. *)
(***************************************************************************)
EXTENDS FragIter, TLC, Json

CONSTANTS Depth, Width, Keys, Leaves

ValueSet == Values(Depth, Width, Keys, Leaves, 0)

VARIABLES v, fi, s, calls, ys, past
vars == <<v, fi, s, calls, ys, past>>

Frag == Fragments(v)[fi]

FInit == /\ v \in ValueSet
         /\ fi \in 1..NFrag(v)
         /\ s = SubInit(Fragments(v)[fi])
         /\ calls = <<>> /\ ys = <<>> /\ past = 0

Call(which) == LET r == IF which = "front" THEN SubFront(s) ELSE SubBack(s) IN
               /\ s' = r.s
               /\ calls' = Append(calls, which)
               /\ ys' = Append(ys, IF r.y = None THEN None ELSE FragBrief(r.y))
               /\ past' = IF r.y = None THEN past + 1 ELSE past
FNext == /\ past < 2
         /\ (Call("front") \/ Call("back"))
         /\ UNCHANGED <<v, fi>>
FSpec == FInit /\ [][FNext]_vars

Dump == PrintT(ToJson([k |-> "fragiter", v |-> v, fi |-> fi - 1, frag |-> FragBrief(Frag), calls |-> calls, ys |-> ys,
                       trav |-> IF calls = <<>> /\ fi = 1 THEN [i \in 1..NFrag(v) |-> FragBrief(Fragments(v)[i])] ELSE <<>>]))

\* double-ended consistency: once exhausted, fronts ++ reverse(backs) = children, each exactly once
Fronts == SelectSeq([i \in 1..Len(calls) |-> IF calls[i] = "front" THEN ys[i] ELSE None], LAMBDA y : y # None)
Backs  == SelectSeq([i \in 1..Len(calls) |-> IF calls[i] = "back" THEN ys[i] ELSE None], LAMBDA y : y # None)
ExactlyOnce == SubDone(s) => Fronts \o Rev(Backs) = [i \in 1..Len(s.c) |-> FragBrief(s.c[i])]
\* never more yields than children; exhausted iterators stay exhausted
Bounded == Len(Fronts) + Len(Backs) + (s.hi - s.lo + 1) = Len(s.c)
Preorder == TraverseIsPreorder(v)
Volumes == VolumeIsSum(Frag)
=============================================================================
