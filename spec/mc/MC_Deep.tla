------------------------------- MODULE MC_Deep -------------------------------
(***************************************************************************)
(* Deep expanded layouts (C13 / C04 beyond the bounded domain): a spine of  *)
(* d nested arrays or one-entry objects ending in a scalar, every container *)
(* expanded, indented by an arbitrary unit.  The text has the closed form   *)
(*     line i (0 <= i < d)  : Indent(i)  [key] open                          *)
(*     line d               : Indent(d)  [key] leaf                          *)
(*     line 2d - i (i < d)  : Indent(i)  close                               *)
(* TLC checks the closed form against JsonPrinter!Render for d = 1..NMax    *)
(* and small units (invariant ClosedForm) and prints the families with the  *)
(* large (unit, depth) pairs; the harness builds value and closed form for  *)
(* those (indentation far beyond 65 535 columns, tens of megabytes of text) *)
(* and compares them with the real printer's output.                        *)
(***************************************************************************)
EXTENDS JsonPrinter, TLC, Json

CONSTANTS NMax, Big

Key == <<107>>
RECURSIVE Spine(_, _)
Spine(kind, d) == IF d = 0 THEN VNum(<<49>>)
                  ELSE IF kind = "arr" THEN VArr(<<Spine(kind, d - 1)>>)
                  ELSE VObj(<<Entry(Key, Spine(kind, d - 1))>>)

Opts(unit) == [Pretty EXCEPT !.indent = unit, !.alim = <<"always">>, !.olim = <<"always">>]
KeyPart(kind, o) == IF kind = "arr" THEN <<>> ELSE StringLit(Key) \o Sp(o.obcol) \o <<58>> \o Sp(o.oacol)
Open(kind) == IF kind = "arr" THEN <<91>> ELSE <<123>>
Close(kind) == IF kind = "arr" THEN <<93>> ELSE <<125>>

RECURSIVE Down(_, _, _, _)
\* lines i .. d - 1 (opening brackets), each followed by a line feed
Down(kind, o, i, d) == IF i = d THEN <<>>
                       ELSE Indent(o, i) \o (IF i > 0 THEN KeyPart(kind, o) ELSE <<>>) \o Open(kind) \o <<10>> \o Down(kind, o, i + 1, d)
RECURSIVE Up(_, _, _)
\* closing brackets at levels i - 1 .. 0, each preceded by a line feed
Up(kind, o, i) == IF i = 0 THEN <<>> ELSE <<10>> \o Indent(o, i - 1) \o Close(kind) \o Up(kind, o, i - 1)
DeepText(kind, unit, d) ==
  LET o == Opts(unit) IN
  Down(kind, o, 0, d) \o Indent(o, d) \o (IF d > 0 THEN KeyPart(kind, o) ELSE <<>>) \o <<49>> \o Up(kind, o, d)

Units == {<<"spaces", 1>>, <<"spaces", 3>>, <<"tabs", 1>>, <<"tabs", 2>>, <<"spaces", 0>>}

VARIABLES kind, unit, d
vars == <<kind, unit, d>>
DInit == kind \in {"arr", "obj"} /\ unit \in Units /\ d = 1
DNext == d < NMax /\ d' = d + 1 /\ UNCHANGED <<kind, unit>>
DSpec == DInit /\ [][DNext]_vars

ClosedForm == Render(Spine(kind, d), Opts(unit)) = DeepText(kind, unit, d)

\* Big: set of <<unit, depth>> pairs to run on the real printer
Dump == (d = NMax /\ unit = <<"spaces", 1>>) => \A b \in Big :
  PrintT(ToJson([k |-> "deepprint", kind |-> kind, unit |-> b[1], depth |-> b[2], o |-> Opts(b[1]),
                 keypart |-> KeyPart(kind, Opts(b[1]))]))
=============================================================================
