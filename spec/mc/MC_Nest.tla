------------------------------- MODULE MC_Nest -------------------------------
(***************************************************************************)
(* C03, nesting depth: families of documents  head pre^n mid post^n tail.   *)
(* For each family the observable outcome (verdict; error offset and        *)
(* character; number of fragments; the first three and the last two code-   *)
(* map entries) is AFFINE in n.  TLC computes the outcome with JsonParser   *)
(* for n = 3..NMax, checks that it equals the affine extrapolation from     *)
(* n = 3, 4 (invariant Affine), and prints the extrapolated expectation     *)
(* for the large depths in Depths, which the harness runs through the real  *)
(* parser in a child process inside a thread with a small fixed stack.      *)
(***************************************************************************)
EXTENDS JsonParser, TLC, Json

CONSTANTS Families, NMax, Depths

RECURSIVE Times(_, _)
Times(s, n) == IF n = 0 THEN <<>> ELSE s \o Times(s, n - 1)
Text(f, n) == f.head \o Times(f.pre, n) \o f.mid \o Times(f.post, n) \o f.tail

\* the affine quantities of an outcome, as a flat sequence of integers
Quant(st) ==
  IF st.mode = "done"
  THEN LET cm == st.cm m == Len(cm)
           T(i) == <<cm[i].s, cm[i].e, cm[i].v>>
       IN <<1, m>> \o T(1) \o T(IF m >= 2 THEN 2 ELSE 1) \o T(IF m >= 3 THEN 3 ELSE 1)
          \o T(IF m >= 2 THEN m - 1 ELSE 1) \o T(m)
  ELSE IF st.err.kind = "unexpected" THEN <<0, st.err.pos, st.err.ch>>
  ELSE <<-1>>

Q(f, n) == Quant(Run(Text(f, n), Strict))
\* base points n = 3, 4: every family has at least three fragments from there on
Extrapolate(f, n) == LET a == Q(f, 3) b == Q(f, 4) IN [i \in 1..Len(a) |-> a[i] + (n - 3) * (b[i] - a[i])]

VARIABLES f, n
vars == <<f, n>>
NInit == f \in Families /\ n = 3
NNext == n < NMax /\ n' = n + 1 /\ f' = f
NSpec == NInit /\ [][NNext]_vars

Affine == Len(Q(f, 3)) = Len(Q(f, 4)) /\ Q(f, n) = Extrapolate(f, n)

Dump == n = NMax =>
  \A d \in Depths :
     PrintT(ToJson([k |-> "nest", name |-> f.name, head |-> f.head, pre |-> f.pre, mid |-> f.mid, post |-> f.post, tail |-> f.tail,
                    n |-> d, exp |-> Extrapolate(f, d)]))

-----------------------------------------------------------------------------
Fam(name, pre, mid, post, tail) == [name |-> name, head |-> <<>>, pre |-> pre, mid |-> mid, post |-> post, tail |-> tail]
FamH(name, head, pre, mid, post, tail) == [name |-> name, head |-> head, pre |-> pre, mid |-> mid, post |-> post, tail |-> tail]
\* [ ] { } " a : 0 , x
AllFamilies == {
  Fam("arrays_closed",      <<91>>, <<>>, <<93>>, <<>>),
  Fam("arrays_unclosed",    <<91>>, <<>>, <<>>, <<>>),
  Fam("arrays_garbage",     <<91>>, <<>>, <<93>>, <<120>>),
  Fam("arrays_wrong_close", <<91>>, <<125>>, <<>>, <<>>),
  Fam("arrays_second_item", <<91, 48, 44>>, <<48>>, <<93>>, <<>>),
  Fam("objects_closed",     <<123, 34, 97, 34, 58>>, <<48>>, <<125>>, <<>>),
  Fam("objects_unclosed",   <<123, 34, 97, 34, 58>>, <<>>, <<>>, <<>>),
  Fam("objects_second_member", <<123, 34, 120, 34, 58, 48, 44, 34, 97, 34, 58>>, <<48>>, <<125>>, <<>>),
  Fam("mixed_closed",       <<91, 123, 34, 97, 34, 58>>, <<49>>, <<125, 93>>, <<>>),
  Fam("mixed_unclosed_key", <<91, 123, 34, 97, 34, 58>>, <<91, 123, 34>>, <<>>, <<>>),
  \* a complete deep value followed, inside an enclosing container, by a syntax error
  FamH("deep_value_then_error_in_array", <<91>>, <<91>>, <<>>, <<93>>, <<32, 120>>),
  FamH("deep_value_then_error_in_object", <<123, 34, 107, 34, 58>>, <<91>>, <<>>, <<93>>, <<44, 125>>),
  FamH("deep_value_then_more", <<91, 49, 44>>, <<91>>, <<>>, <<93>>, <<44, 123, 125, 93, 10>>),
  Fam("mixed_spaced",       <<91, 32, 123, 32, 34, 97, 34, 32, 58, 32>>, <<110, 117, 108, 108>>, <<32, 125, 32, 93>>, <<32>>)
}

\* LENGTH families (C03: "never overflows the stack" for every input, not only deep ones): the repeated part is a
\* whitespace character, a string character, a digit, an array item or an object member; same affine outcomes
LengthFamilies == {
  Fam("long_ws_before_value",   <<32>>, <<49>>, <<>>, <<>>),
  FamH("long_ws_after_value",   <<49>>, <<10>>, <<>>, <<>>, <<>>),
  FamH("long_ws_then_garbage",  <<91, 49>>, <<9>>, <<120>>, <<>>, <<>>),
  FamH("long_ws_in_array",      <<91, 49, 44>>, <<32>>, <<50>>, <<13>>, <<93>>),
  FamH("long_ws_in_object",     <<123>>, <<32>>, <<34, 107, 34>>, <<32>>, <<58, 48, 125>>),
  FamH("long_string",           <<34>>, <<97>>, <<34>>, <<>>, <<>>),
  FamH("long_string_escapes",   <<34>>, <<92, 110>>, <<34>>, <<>>, <<>>),
  FamH("long_string_multibyte", <<91, 34>>, <<233, 128512>>, <<34, 93>>, <<>>, <<>>),
  \* multi-byte characters whose bytes straddle the 64 KiB marks of the input (2-byte characters at odd offsets,
  \* 3-byte characters at offsets 2 mod 3, 4-byte characters at offsets 1 mod 4)
  FamH("long_string_2byte_odd", <<91, 34, 97>>, <<233>>, <<34, 93>>, <<>>, <<>>),
  FamH("long_string_3byte",     <<91, 34>>, <<8364>>, <<34, 93>>, <<>>, <<>>),
  FamH("long_key_4byte",        <<123, 34, 97>>, <<128512>>, <<34, 58, 49, 125>>, <<>>, <<>>),
  FamH("long_string_unclosed",  <<34>>, <<92, 117, 48, 48, 52, 49>>, <<>>, <<>>, <<>>),
  FamH("long_key",              <<123, 34>>, <<107>>, <<34, 58, 49, 125>>, <<>>, <<>>),
  FamH("long_integer",          <<49>>, <<48>>, <<>>, <<>>, <<>>),
  FamH("long_fraction",         <<91, 45, 48, 46>>, <<55>>, <<93>>, <<>>, <<>>),
  FamH("long_exponent",         <<49, 101>>, <<57>>, <<>>, <<>>, <<32>>),
  FamH("long_number_then_garbage", <<49, 46>>, <<48>>, <<120>>, <<>>, <<>>),
  FamH("wide_array",            <<91, 48>>, <<44, 48>>, <<93>>, <<>>, <<>>),
  FamH("wide_array_of_arrays",  <<91, 91, 93>>, <<44, 91, 93>>, <<93>>, <<>>, <<>>),
  FamH("wide_array_unclosed",   <<91, 48>>, <<44, 32, 110, 117, 108, 108>>, <<>>, <<>>, <<>>),
  FamH("wide_object",           <<123, 34, 97, 34, 58, 48>>, <<44, 34, 97, 34, 58, 48>>, <<125>>, <<>>, <<>>),
  FamH("wide_object_then_error", <<123, 34, 97, 34, 58, 123, 125>>, <<44, 34, 98, 34, 58, 123, 125>>, <<44, 125>>, <<>>, <<>>),
  FamH("many_literals",         <<91, 116, 114, 117, 101>>, <<44, 102, 97, 108, 115, 101, 44, 110, 117, 108, 108>>, <<93>>, <<>>, <<>>)
}
AllAndLength == AllFamilies \cup LengthFamilies
\* the families that matter for acceptance through the byte-slice entry point (C01): long inputs of multi-byte characters
StraddleFamilies == {fam \in LengthFamilies : fam.name \in {"long_string_2byte_odd", "long_string_3byte", "long_key_4byte", "long_string_multibyte"}}
=============================================================================
