----------------------------- MODULE MC_NestBytes -----------------------------
(***************************************************************************)
(* Long BYTE inputs (C01 / C07 on the slice entry point): families          *)
(*     encode(head pre^n) ++ bad ++ encode(tail)                            *)
(* where `bad` is a short ill-formed byte sequence (an overlong form, an    *)
(* encoded surrogate, a lone continuation byte, a truncated sequence) met   *)
(* after hundreds of kilobytes of well-formed text.  The outcome - an       *)
(* invalid-UTF-8 error at the offset of `bad`, or the syntax error that     *)
(* comes first - is affine in n; TLC computes it with the byte-level        *)
(* specification (Utf8!RunBytes) for n = 3..NMax, checks affinity, and      *)
(* prints the extrapolation for the large n in Depths.                      *)
(***************************************************************************)
EXTENDS Utf8, TLC, Json

CONSTANTS NMax, Depths

RECURSIVE Times(_, _)
Times(s, n) == IF n = 0 THEN <<>> ELSE s \o Times(s, n - 1)
Bytes(f, n) == EncodeAll(f.head \o Times(f.pre, n)) \o f.bad \o EncodeAll(f.tail)

Quant(st) ==
  IF st.mode = "done" THEN <<1, Len(st.cm)>>
  ELSE IF st.err.kind = "unexpected" THEN <<0, st.err.pos, st.err.ch>>
  ELSE IF st.err.kind = "utf8" THEN <<-2, st.err.pos>>
  ELSE <<-1>>
Q(f, n) == Quant(RunBytes(Bytes(f, n), Strict))
Extrapolate(f, n) == LET a == Q(f, 3) b == Q(f, 4) IN [i \in 1..Len(a) |-> a[i] + (n - 3) * (b[i] - a[i])]

FamB(name, head, pre, bad, tail) == [name |-> name, head |-> head, pre |-> pre, bad |-> bad, tail |-> tail]
Families == {
  \* ["aaaa...<overlong slash>"]
  FamB("overlong2_in_long_string",   <<91, 34>>, <<97>>, <<192, 175>>, <<34, 93>>),
  FamB("overlong3_in_long_string",   <<91, 34, 97>>, <<233>>, <<224, 128, 175>>, <<34, 93>>),
  FamB("surrogate_in_long_string",   <<91, 34>>, <<8364>>, <<237, 160, 128>>, <<34, 93>>),
  FamB("lone_continuation_in_long_key", <<123, 34>>, <<107>>, <<128>>, <<34, 58, 49, 125>>),
  FamB("truncated_at_end_of_long_string", <<91, 34>>, <<128512>>, <<240, 159, 152>>, <<>>),
  FamB("overlong_between_many_items", <<91, 48>>, <<44, 48>>, <<192, 172>>, <<48, 93>>),
  FamB("bad_byte_after_long_ws",     <<91, 49>>, <<32>>, <<255>>, <<93>>),
  \* a syntax error strictly before the ill-formed sequence wins
  FamB("syntax_error_before_bad",    <<91, 49, 32, 50>>, <<32>>, <<255>>, <<93>>),
  \* well-formed after all: nothing bad
  FamB("well_formed_long",           <<91, 34>>, <<233, 97>>, <<>>, <<34, 93>>)
}

VARIABLES f, n
vars == <<f, n>>
NInit == f \in Families /\ n = 3
NNext == n < NMax /\ n' = n + 1 /\ f' = f
NSpec == NInit /\ [][NNext]_vars

Affine == Len(Q(f, 3)) = Len(Q(f, 4)) /\ Q(f, n) = Extrapolate(f, n)

Dump == n = NMax =>
  \A d \in Depths :
     PrintT(ToJson([k |-> "nestb", name |-> f.name, head |-> f.head, pre |-> f.pre, bad |-> f.bad, tail |-> f.tail,
                    n |-> d, exp |-> Extrapolate(f, d)]))
=============================================================================
