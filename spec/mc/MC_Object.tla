------------------------------ MODULE MC_Object ------------------------------
(***************************************************************************)
(* Graph model of JsonObject: EVERY reachable abstract object state (entry  *)
(* lists of at most MaxLen entries over Keys x Vals) and EVERY operation    *)
(* from it.  `hist` is a history variable hidden behind the VIEW: it keeps  *)
(* one access path to the state, so that each transition is printed as a    *)
(* replayable behaviour (history, operation, expected post-state, result).  *)
(***************************************************************************)
EXTENDS JsonObject, TLC, Json

CONSTANTS Keys, Absent, Vals, MaxLen, Bulk

VARIABLES o, hist
vars == <<o, hist>>
View == o

Op(name, k, v, i, n, es) == [op |-> name, k |-> k, v |-> v, i |-> i, n |-> n, es |-> es]
NoK == <<>>

Ops(ob) ==
  LET len == Len(ob.entries) IN
       {Op(name, k, v, 0, 99, <<>>) : name \in {"push", "push_front", "get_or_insert"}, k \in Keys, v \in Vals}
  \cup {Op(name, k, v, 0, n, <<>>) : name \in {"insert", "insert_front"}, k \in Keys, v \in Vals, n \in {0, 1, 99}}
  \cup {Op("remove", k, 0, 0, n, <<>>) : k \in Keys \cup {Absent}, n \in {0, 1, 99}}
  \cup {Op("remove_unique", k, 0, 0, 99, <<>>) : k \in Keys \cup {Absent}}
  \cup {Op("remove_at", NoK, 0, i, 99, <<>>) : i \in 0..len}
  \cup {Op("set_value", NoK, v, i, 99, <<>>) : i \in 0..len, v \in Vals}
  \cup {Op(name, NoK, 0, 0, 99, <<>>) : name \in {"sort", "clone"}}
  \cup {Op(name, NoK, 0, 0, 99, es) : name \in {"from_vec", "extend", "clone_from"}, es \in Bulk}

OInit == o = EmptyObj /\ hist = <<>>

ONext == \E op \in Ops(o) :
           LET r == Apply(o, op) IN
           /\ Len(r.obj.entries) <= MaxLen
           \* the implementation-grain algorithm realises the documented list semantics
           /\ Assert(r.obj.entries = LApply(o.entries, op), <<"Apply # LApply", o, op>>)
           /\ PrintT(ToJson([k |-> "obj", hist |-> hist, op |-> op,
                             post |-> [entries |-> r.obj.entries, idx |-> IdxList(r.obj.idx), ret |-> r.ret]]))
           /\ o' = r.obj
           /\ hist' = Append(hist, op)

OSpec == OInit /\ [][ONext]_vars

Consistent == IdxConsistent(o)
Scans == QueriesAreScans(o, Keys \cup {Absent})
\* the index never holds an empty bucket and `other` is strictly increasing
BucketsSorted == \A k \in DOMAIN o.idx :
                   LET b == o.idx[k] IN
                   /\ \A j \in 1..Len(b.other) : b.other[j] > b.rep
                   /\ \A j \in 1..(Len(b.other) - 1) : b.other[j] < b.other[j + 1]
=============================================================================
