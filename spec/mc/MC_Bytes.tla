------------------------------ MODULE MC_Bytes ------------------------------
(***************************************************************************)
(* Byte-level tree model: every sequence of at most MaxLen byte tokens from *)
(* Alphabet between Prefix and Suffix.  Checked in every state: the decoder *)
(* machine agrees with the declarative definition of well-formed UTF-8      *)
(* (accepts iff the decoded scalars re-encode to exactly these bytes: no    *)
(* overlong form, no encoded surrogate, nothing above U+10FFFF), and the    *)
(* error offset is the lead byte of the first ill-formed sequence.          *)
(***************************************************************************)
EXTENDS Utf8, JsonGrammar, TLC, Json

CONSTANTS Alphabet, MaxLen, Prefix, Suffix, OptSet

VARIABLES w, len, o
vars == <<w, len, o>>
BInit == w = <<>> /\ len = 0 /\ o \in OptSet
BNext == /\ len < MaxLen /\ len' = len + 1 /\ o' = o
         /\ \E tok \in Alphabet : w' = w \o tok
BSpec == BInit /\ [][BNext]_vars

Bytes == Prefix \o w \o Suffix
Dump == PrintT(ToJson([k |-> "parse_bytes", b |-> Bytes, o |-> <<o.trunc, o.inval>>, out |-> Outcome(RunBytes(Bytes, o))]))

DecoderIsTable37 ==
  LET d == Decode(Bytes) IN
  /\ (d.bad = -1) <=> WellFormedAs(Bytes, d.chars)
  /\ d.bad # -1 => /\ d.bad < Len(Bytes)
                   /\ WellFormedAs(SubSeq(Bytes, 1, d.bad), d.chars)         \* the prefix before it is well formed
                   /\ Decode(SubSeq(Bytes, 1, d.bad + 1)).bad = d.bad          \* and it starts exactly there

\* C01 on byte input: accepted iff the bytes are the UTF-8 encoding of a text the declarative
\* RFC 8259 grammar derives; the value is then that text's denotation
BytesAcceptIffGrammar ==
  LET d == Decode(Bytes) IN
  (RunBytes(Bytes, o).mode = "done") <=> (WellFormedAs(Bytes, d.chars) /\ GText(d.chars, o))
BytesValueIsDenotation ==
  LET r == RunBytes(Bytes, o) IN r.mode = "done" => r.val = DText(Decode(Bytes).chars, o)
=============================================================================
