------------------------------ MODULE MC_Macro ------------------------------
(***************************************************************************)
(* C19: documents written as json! literals.  A decorated document records  *)
(* how it is written (trailing commas, literal / parenthesized / expression  *)
(* keys, literal or expression values).  Tokens(d) is the token tree the     *)
(* macro sees, Text(d) the JSON text of the same document.  Checked for      *)
(* every document of the bounded set: the macro specification expands        *)
(* without getting stuck and  MacroValue(Tokens(d)) = value of Run(Text(d)). *)
(* Each document is printed as a replay vector; the harness emits it as      *)
(* Rust source, compiles it against the current tree and compares.           *)
(***************************************************************************)
EXTENDS MacroDocs, JsonParser, TLC, Json

CONSTANTS Docs

VARIABLE d
vars == <<d>>
MInit == d \in Docs
MNext == UNCHANGED vars
MSpec == MInit /\ [][MNext]_vars

Expands == MacroValue(Tokens(d)) # Stuck
MacroIsParse == LET r == Run(Text(d), Strict) IN r.mode = "done" /\ MacroValue(Tokens(d)) = r.val
Dump == PrintT(ToJson([k |-> "macro", d |-> d, text |-> Text(d), value |-> MacroValue(Tokens(d))]))

-----------------------------------------------------------------------------
a == <<97>>  kk == <<107>>  bb == <<98>>
Leaves == {DNull, DTrue, DInt(<<52, 50>>), DInt(<<45, 55>>), DFloat(<<49, 46, 53>>), DStr(a), DStr(<<>>), DExpr(DFalse), DExpr(DStr(<<120, 34>>))}
U64 == <<117, 54, 52>>  I64 == <<105, 54, 52>>  U8 == <<117, 56>>  I8 == <<105, 56>>  U16 == <<117, 49, 54>>  U32 == <<117, 51, 50>>  I16 == <<105, 49, 54>>  I32 == <<105, 51, 50>>
Bounds == {DIntS(<<49, 56, 52, 52, 54, 55, 52, 52, 48, 55, 51, 55, 48, 57, 53, 53, 49, 54, 49, 53>>, U64),
           DIntS(<<57, 50, 50, 51, 51, 55, 50, 48, 51, 54, 56, 53, 52, 55, 55, 53, 56, 48, 56>>, U64),
           DIntS(<<45, 57, 50, 50, 51, 51, 55, 50, 48, 51, 54, 56, 53, 52, 55, 55, 53, 56, 48, 56>>, I64),
           DIntS(<<57, 50, 50, 51, 51, 55, 50, 48, 51, 54, 56, 53, 52, 55, 55, 53, 56, 48, 55>>, I64),
           DIntS(<<50, 53, 53>>, U8), DIntS(<<45, 49, 50, 56>>, I8), DIntS(<<54, 53, 53, 51, 53>>, U16), DIntS(<<52, 50, 57, 52, 57, 54, 55, 50, 57, 53>>, U32),
           DIntS(<<45, 51, 50, 55, 54, 56>>, I16), DIntS(<<45, 50, 49, 52, 55, 52, 56, 51, 54, 52, 56>>, I32), DIntS(<<48>>, U64)}
Leaves3 == {DNull, DInt(<<52, 50>>), DExpr(DFalse)}
Bools == {FALSE, TRUE}

Arr1 == {DArr(<<>>, FALSE)} \cup {DArr(<<x>>, t) : x \in Leaves, t \in Bools} \cup {DArr(<<x, y>>, t) : x \in Leaves, y \in Leaves3, t \in Bools}
Entries3 == {DEntry(kf, k, v) : kf \in {"lit", "paren", "expr"}, k \in {a}, v \in Leaves3} \cup {DEntry("lit", kk, DStr(a)), DEntry("expr", bb, DFloat(<<45, 48, 46, 50, 53>>))}
Obj1 == {DObj(<<>>, FALSE)} \cup {DObj(<<e>>, t) : e \in Entries3, t \in Bools} \cup {DObj(<<e, f>>, t) : e \in Entries3, f \in Entries3, t \in Bools}

Inner == {DArr(<<>>, FALSE), DObj(<<>>, FALSE), DArr(<<DNull>>, TRUE), DArr(<<DInt(<<52, 50>>), DExpr(DFalse)>>, FALSE),
          DObj(<<DEntry("lit", a, DNull)>>, TRUE), DObj(<<DEntry("paren", a, DInt(<<52, 50>>)), DEntry("lit", a, DTrue)>>, FALSE),
          DObj(<<DEntry("expr", kk, DExpr(DFalse)), DEntry("lit", bb, DNull), DEntry("lit", kk, DNull)>>, TRUE)}
Depth2 == {DArr(<<x>>, t) : x \in Inner, t \in Bools} \cup {DArr(<<x, y>>, t) : x \in Inner, y \in Inner, t \in Bools}
          \cup {DArr(<<DNull, x, DTrue>>, FALSE) : x \in Inner}
          \cup {DObj(<<DEntry(kf, a, x)>>, t) : kf \in {"lit", "paren", "expr"}, x \in Inner, t \in Bools}
          \cup {DObj(<<DEntry("lit", a, x), DEntry("lit", bb, y)>>, t) : x \in Inner, y \in Inner, t \in Bools}
          \cup {DObj(<<DEntry("lit", a, DNull), DEntry("paren", bb, x), DEntry("lit", a, DNull)>>, FALSE) : x \in Inner}
Depth3 == {DArr(<<DObj(<<DEntry("lit", a, DArr(<<x, DNull>>, TRUE))>>, TRUE), y>>, TRUE) : x \in Inner, y \in Inner}

BoundDocs == Bounds \cup {DArr(<<x, DNull>>, TRUE) : x \in Bounds} \cup {DObj(<<DEntry("lit", a, x)>>, FALSE) : x \in Bounds}
QuickDocs == BoundDocs \cup Leaves \cup Arr1 \cup {o \in Obj1 : Len(o.entries) <= 1 \/ o.trail} \cup {x \in Depth2 : x.trail}
ThoroughDocs == BoundDocs \cup Leaves \cup Arr1 \cup Obj1 \cup Depth2 \cup Depth3
=============================================================================
