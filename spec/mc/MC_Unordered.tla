---------------------------- MODULE MC_Unordered ----------------------------
(***************************************************************************)
(* C15: ALL PAIRS of small objects (at most MaxEntries entries over Keys x  *)
(* Leaves).  For every pair the declarative UnorderedEq (existence of a     *)
(* key- and value-matching bijection between entry positions) is printed    *)
(* as a replay vector, together with the same pair nested under an array    *)
(* and under an object entry.  Checked on the way: UnorderedEq = MultisetEq *)
(* (the executable formulation used on large recorded values), symmetry,    *)
(* implied by equality, invariance under nesting.                           *)
(***************************************************************************)
EXTENDS JsonValue, TLC, Json

CONSTANTS Keys, Leaves, MaxEntries

Objs == {VObj(es) : es \in SeqsUpTo({Entry(k, v) : k \in Keys, v \in Leaves}, MaxEntries)}

VARIABLES a, b
vars == <<a, b>>
UInit == a \in Objs /\ b \in Objs
UNext == UNCHANGED vars
USpec == UInit /\ [][UNext]_vars

InArr(x) == VArr(<<VNull, x>>)
InObj(x) == VObj(<<Entry(<<110>>, x), Entry(<<109>>, VBool(TRUE))>>)
InObj2(x) == VObj(<<Entry(<<109>>, VBool(TRUE)), Entry(<<110>>, x)>>)

Dump ==
  LET e == UnorderedEq(a, b) IN
  /\ PrintT(ToJson([k |-> "uneq", a |-> a, b |-> b, eq |-> e]))
  /\ PrintT(ToJson([k |-> "uneq", a |-> InArr(a), b |-> InArr(b), eq |-> UnorderedEq(InArr(a), InArr(b))]))
  /\ PrintT(ToJson([k |-> "uneq", a |-> InObj(a), b |-> InObj2(b), eq |-> UnorderedEq(InObj(a), InObj2(b))]))
  \* arrays at the top (the array type is an entry point of its own): same length, and different lengths where one
  \* array is, item-wise, a prefix of the other
  /\ \A p \in {<<VArr(<<a>>), VArr(<<b>>)>>, <<VArr(<<a>>), VArr(<<b, a>>)>>, <<VArr(<<a, b>>), VArr(<<b>>)>>,
                <<VArr(<<>>), VArr(<<b>>)>>, <<VArr(<<a, b>>), VArr(<<b, a>>)>>} :
        PrintT(ToJson([k |-> "uneq", a |-> p[1], b |-> p[2], eq |-> UnorderedEq(p[1], p[2])]))

Laws ==
  LET e == UnorderedEq(a, b) IN
  /\ e = MultisetEq(a, b)
  /\ e = UnorderedEq(b, a)
  /\ (a = b) => e
  /\ UnorderedEq(a, a)
  /\ UnorderedEq(InArr(a), InArr(b)) = e
  /\ UnorderedEq(InObj(a), InObj2(b)) = e
  \* arrays stay ordered sequences of the same length
  /\ UnorderedEq(VArr(<<a>>), VArr(<<b>>)) = e
  /\ ~UnorderedEq(VArr(<<a>>), VArr(<<b, a>>)) /\ ~UnorderedEq(VArr(<<>>), VArr(<<b>>))
  /\ UnorderedEq(VArr(<<a, b>>), VArr(<<b, a>>)) = e
=============================================================================
