----------------------------- MODULE MC_SerdeDe -----------------------------
(* Every (value, request, pulls) triple, every variant access, every (key, request) pair of the bounded domain. *)
EXTENDS SerdeDe, TLC, Json

Requests == {"any", "bool", "i8", "i16", "i32", "i64", "i128", "u8", "u16", "u32", "u64", "u128", "f32", "f64", "char", "str", "string",
             "bytes", "byte_buf", "option", "unit", "unit_struct", "newtype_struct", "seq", "tuple", "tuple_struct", "map", "struct",
             "enum", "identifier", "ignored_any"}
N(s) == VNum(s)
Vals == {VNull, VBool(TRUE), VStr(<<>>), VStr(<<65>>),
         N(<<48>>), N(<<45, 48>>), N(<<55>>), N(<<45, 51>>), N(<<49, 46, 53>>), N(<<49, 101, 50>>),
         N(<<49, 56, 52, 52, 54, 55, 52, 52, 48, 55, 51, 55, 48, 57, 53, 53, 49, 54, 49, 53>>),
         N(<<49, 56, 52, 52, 54, 55, 52, 52, 48, 55, 51, 55, 48, 57, 53, 53, 49, 54, 49, 54>>),
         N(<<45, 57, 50, 50, 51, 51, 55, 50, 48, 51, 54, 56, 53, 52, 55, 55, 53, 56, 48, 56>>),
         N(<<45, 57, 50, 50, 51, 51, 55, 50, 48, 51, 54, 56, 53, 52, 55, 55, 53, 56, 48, 57>>),
         N(<<57, 50, 50, 51, 51, 55, 50, 48, 51, 54, 56, 53, 52, 55, 55, 53, 56, 48, 56>>),
         VArr(<<>>), VArr(<<VNull>>), VArr(<<VBool(TRUE), VNull>>),
         VObj(<<>>), VObj(<<Entry(<<65>>, VNull)>>), VObj(<<Entry(<<65>>, VArr(<<VNull>>)), Entry(<<66>>, VNull)>>),
         VObj(<<Entry(<<65>>, VArr(<<>>))>>), VObj(<<Entry(<<65>>, VObj(<<Entry(<<97>>, VNull)>>))>>), VObj(<<Entry(<<65>>, N(<<55>>))>>)}
Pulls == {0, 1, 99}
VariantKinds == {"unit", "newtype", "tuple", "struct"}
KeySamples == {<<>>, <<65>>, <<48>>, <<53>>, <<45, 53>>, <<43, 53>>, <<45>>, <<48, 53>>, <<50, 53, 53>>, <<50, 53, 54>>, <<45, 49, 50, 56>>, <<45, 49, 50, 57>>,
               <<49, 46, 48>>, <<32, 53>>, <<49, 56, 52, 52, 54, 55, 52, 52, 48, 55, 51, 55, 48, 57, 53, 53, 49, 54, 49, 53>>,
               <<57, 50, 50, 51, 51, 55, 50, 48, 51, 54, 56, 53, 52, 55, 55, 53, 56, 48, 56>>, <<45, 48>>}

VARIABLES kind, v, req, pulls
vars == <<kind, v, req, pulls>>
DInit == \/ kind = "value" /\ v \in Vals /\ req \in Requests /\ pulls \in Pulls
         \/ kind = "variant" /\ v \in Vals /\ req \in VariantKinds /\ pulls \in Pulls
         \/ kind = "key" /\ v \in {VStr(k) : k \in KeySamples} /\ req \in Requests /\ pulls = 99
DNext == UNCHANGED vars
DSpec == DInit /\ [][DNext]_vars

\* for "variant": v is the value handed to deserialize_enum
Expected ==
  CASE kind = "value" -> Respond(v, req, pulls)
    [] kind = "variant" ->
         LET e == Respond(v, "enum", 99) IN
         IF e.r = "err" THEN e
         ELSE VariantRespond(e.payload, IF e.payload THEN v.entries[1].v ELSE VNull, req, pulls)
    [] kind = "key" -> KeyRespond(v.str, req)
Dump == PrintT(ToJson([k |-> "de", kind |-> kind, v |-> v, req |-> req, pulls |-> pulls, exp |-> Expected]))
\* only sequences / maps can produce a length error, and only when the visitor stops early
LengthErrorsOnlyWhenShort == (Expected.r = "err" /\ Expected.e = "invalid_length") => pulls < 99
=============================================================================
