----------------------------- MODULE MC_Messages -----------------------------
(***************************************************************************)
(* Every error value over a small domain with its text and accessors, for   *)
(* replay into the crate (vector kind "msg").                               *)
(***************************************************************************)
EXTENDS Messages, TLC, Json

Positions == {0, 1, 7, 70000}
Spans == {<<0, 6>>, <<3, 9>>, <<3, 15>>, <<70000, 70012>>}
\* ASCII, a backquote, a quote, a control character, 2/3/4-byte characters
Shown == {97, 96, 34, 10, 0, 233, 8364, 128512, 1114111}
Units == {55296, 56319, 56320, 57343}
CodePoints == {0, 15, 16, 55296, 57343, 1114112, 1114113, 2147483647}

ParseErrors ==
  {[kind |-> "unexpected", pos |-> p, ch |-> c] : p \in Positions, c \in Shown \cup {EOF}}
  \cup {[kind |-> "utf8", pos |-> p] : p \in Positions}
  \cup {[kind |-> "stream", pos |-> p, inner |-> <<"custom failure ", 233>>] : p \in Positions}
  \cup {[kind |-> "invalid_cp", span |-> s, cp |-> c] : s \in Spans, c \in CodePoints}
  \cup {[kind |-> "missing_low", span |-> s, high |-> u] : s \in Spans, u \in Units}
  \cup {[kind |-> "invalid_low", span |-> s, high |-> u, low |-> c] : s \in Spans, u \in {55296, 56319}, c \in {0, 65, 55296, 65535}}

Keys == {<<>>, <<97>>, <<96, 34, 92>>, <<10, 233, 128512>>}

Cases ==
  {[type |-> "parse", e |-> e] : e \in ParseErrors}
  \cup {[type |-> "unexpected", expected |-> S, found |-> f, offset |-> o] : S \in SUBSET K, f \in K, o \in {0, 5}}
  \cup {[type |-> "duplicate", key |-> k] : k \in Keys}
  \cup {[type |-> "serde", side |-> sd, e |-> [variant |-> "custom", msg |-> m]] : sd \in {"ser", "de"}, m \in {<<"x">>, <<"invalid type: ", 233, " `", 96>>, <<>>}}
  \cup {[type |-> "serde", side |-> sd, e |-> [variant |-> "non_string_key"]] : sd \in {"ser", "de"}}
  \cup {[type |-> "serde", side |-> "ser", e |-> [variant |-> "malformed_number"]]}

VARIABLES c, go
vars == <<c, go>>
MInit == c \in Cases /\ go = FALSE
MNext == ~go /\ go' = TRUE /\ c' = c
MSpec == MInit /\ [][MNext]_vars

Out == CASE c.type = "parse" -> [k |-> "msg", type |-> "parse", e |-> c.e, text |-> ParseErrorText(c.e), pos |-> ParseErrorPosition(c.e),
                                 span |-> ParseErrorSpan(c.e), source |-> ParseErrorHasSource(c.e)]
         [] c.type = "unexpected" -> [k |-> "msg", type |-> "unexpected", expected |-> Ascending(c.expected), found |-> c.found, offset |-> c.offset,
                                      text |-> MappedText(UnexpectedText(c.expected, c.found))]
         [] c.type = "duplicate" -> [k |-> "msg", type |-> "duplicate", key |-> c.key, text |-> DuplicateEntryText(c.key)]
         [] c.type = "serde" -> [k |-> "msg", type |-> "serde", side |-> c.side, e |-> c.e, text |-> SerdeErrorText(c.e)]

Dump == go => PrintT(ToJson(Out))

\* design level: a text is never empty, and a position is the start of the span
Sane == LET o == Out IN
        /\ (c.type # "serde" => Len(o.text) > 0)
        /\ (c.type = "parse" => o.pos = o.span[1] /\ o.span[1] <= o.span[2])
=============================================================================
