---------------------------- MODULE MC_ParserTree ----------------------------
(***************************************************************************)
(* Tree model of the parser: EVERY concatenation of at most MaxLen tokens    *)
(* from Alphabet (a set of character sequences; single characters are       *)
(* tokens of length one), after the fixed Prefix and followed by the fixed  *)
(* Suffix, under every option record in OptSet.  The input read so far (w) is part of the *)
(* state, so each reachable state is one input document with its complete   *)
(* expected outcome; Dump prints it as one JSON line which the harness      *)
(* replays into the real parser (spec -> implementation conformance).       *)
(* Error states are leaves: no extension of the input can change the        *)
(* outcome.                                                                 *)
(***************************************************************************)
EXTENDS JsonParser, JsonGrammar, CodeMapNav, TLC, Json, SequencesExt

CONSTANTS Alphabet, MaxLen, Prefix, Suffix, OptSet, DumpOn

VARIABLES w, st, o, len
vars == <<w, st, o, len>>

TInit == /\ o \in OptSet
         /\ w = <<>>
         /\ len = 0
         /\ st = RunFrom(Init, Prefix, 1, o)

TNext == /\ len < MaxLen
         /\ len' = len + 1
         /\ st.mode # "err"
         /\ \E tok \in Alphabet :
              /\ w' = w \o tok
              /\ st' = RunFrom(st, tok, 1, o)
         /\ o' = o

TSpec == TInit /\ [][TNext]_vars

\* the outcome if the input ended here (after the suffix)
Final == Finish(RunFrom(st, Suffix, 1, o), o)

\* accepted documents also carry the navigation expectations of C11
\* the typed entry point whose token can start with the first character of the input
TokExp == LET inp == Prefix \o w \o Suffix
              kind == IF inp = <<>> THEN "none" ELSE TokenKindOf(inp[1]) IN
          IF kind = "none" THEN [kind |-> "none"]
          ELSE [kind |-> kind, out |-> TokenOutcome(TokenRun(kind, inp, o))]

\* Error states are absorbing (Step leaves them unchanged), so an outcome that is decided at a character INSIDE
\* the input is the outcome of every extension of the input as well.  The tree does not enumerate those extensions
\* (error states are leaves); instead each such vector carries the alphabet, and the harness requires the SAME
\* outcome from the real parser for the input followed by each token (and, sampled, by each pair of tokens).
AlphaSeq == SetToSeq(Alphabet)
DecidedInside(f) == f.mode = "err" /\ (f.err.kind = "surrogate" \/ (f.err.kind = "unexpected" /\ f.err.ch # EOF))
ErrorsAbsorb == LET f == Final IN
  /\ DecidedInside(f) => \A tok \in Alphabet : Outcome(Finish(RunFrom(f, tok, 1, o), o)) = Outcome(f)
  /\ (DecidedInside(f) /\ st.mode = "err") =>
        \A tok \in Alphabet : Outcome(Finish(RunFrom(st, tok \o Suffix, 1, o), o)) = Outcome(f)

Dump == DumpOn =>
  LET f == Final IN
  IF f.mode = "done"
  THEN PrintT(ToJson([k |-> "parse", w |-> Prefix \o w \o Suffix, o |-> <<o.trunc, o.inval>>,
                      out |-> Outcome(f), tok |-> TokExp, nav |-> Nav(f.val)]))
  ELSE PrintT(ToJson([k |-> "parse", w |-> Prefix \o w \o Suffix, o |-> <<o.trunc, o.inval>>,
                      out |-> Outcome(f), tok |-> TokExp, ext |-> IF DecidedInside(f) THEN AlphaSeq ELSE <<>>,
                      \* sfx: length of the fixed suffix; dec: the outcome was already decided before the suffix, so tokens
                      \* inserted BEFORE the suffix are extensions of the decided prefix as well
                      sfx |-> Len(Suffix), dec |-> (st.mode = "err")]))

-----------------------------------------------------------------------------
\* Invariants (design level)

\* C03: one character per step; the stack is the nesting of open brackets
OneCharPerStep == st.mode # "err" => st.n = Len(Prefix) + Len(w)

\* C05: on accept the code map is exactly the pre-order fragment list of the value
CodeMapOK == Final.mode = "done" => CodeMapMatchesValue(Final)

\* C07: error offsets never exceed the input and the reported character is
\* the input character at that offset (none exactly at the end)
ErrorPointsAtInput ==
  LET f == Final inp == Prefix \o w \o Suffix IN
  (f.mode = "err" /\ f.err.kind = "unexpected") =>
     /\ f.err.pos <= Utf8LenOf(inp)
     /\ (f.err.ch = EOF) <=> (f.err.pos = Utf8LenOf(inp))

\* C07: an error is never raised while the text read so far is still a viable prefix
Viable == st.mode # "err" => IsViable(st)

\* C12: a strict-valid document has the same outcome under every option record
ConservativeExtension ==
  LET inp == Prefix \o w \o Suffix
      s   == Run(inp, Strict) IN
  s.mode = "done" => Outcome(Final) = Outcome(s)

\* C01 / C02 / C12 at design level: the automaton accepts exactly the texts the declarative RFC 8259
\* grammar derives (under the same option record), and returns the value the text denotes
AcceptIffGrammar == LET inp == Prefix \o w \o Suffix IN (Final.mode = "done") <=> GText(inp, o)
ValueIsDenotation == LET inp == Prefix \o w \o Suffix IN Final.mode = "done" => Final.val = DText(inp, o)

\* the typed entry points are prefix parsers of the same token language: whenever the whole input is one
\* token of that kind (accepted as a document with nothing around it), the typed parser returns the same value
TokenAgreesWithValue ==
  LET inp == Prefix \o w \o Suffix t == TokExp IN
  (t.kind # "none" /\ Final.mode = "done" /\ ~IsContainer(Final.val) /\ inp[Len(inp)] \notin {32, 9, 10, 13})
     => (t.out.ok /\ t.out.v = Final.val /\ t.out.cm = CmTriples(Final.cm))
=============================================================================
