------------------------------ MODULE MC_Access ------------------------------
(***************************************************************************)
(* Every small value (all six kinds as leaves, both booleans, several       *)
(* number spellings, strings with multi-byte characters, empty and nested   *)
(* containers, repeated keys) with the answers of the accessor layer.       *)
(***************************************************************************)
EXTENDS JsonAccess, TLC, Json

CONSTANTS MaxDepth, MaxWidth, Keys, Leaves

ValueSet == Values(MaxDepth, MaxWidth, Keys, Leaves, 0)

VARIABLES v, go
vars == <<v, go>>
AInit == v \in ValueSet /\ go = FALSE
ANext == ~go /\ go' = TRUE /\ v' = v
ASpec == AInit /\ [][ANext]_vars

Dump == go => PrintT(ToJson([k |-> "access", v |-> v, acc |-> Access(v), frags |-> FragAccess(v)]))

\* design level: exactly one is_X holds and it agrees with kind; a payload accessor answers iff its predicate does;
\* the fragment flags are exclusive between entry / key / value
ExactlyOneKind ==
  LET a == Access(v) IN
  /\ \A i \in 1..6 : a.is[i] = (a.kind = i)
  /\ a.bool.some = a.is[2] /\ a.num.some = a.is[3] /\ a.str.some = a.is[4] /\ a.arr.some = a.is[5] /\ a.obj.some = a.is[6]
  /\ (a.empty => (a.is[5] \/ a.is[6]))
  /\ Len(a.force) >= 1 \/ (a.is[5] /\ a.empty)
  /\ \A i \in 1..Len(FragAccess(v)) :
       LET f == FragAccess(v)[i].flags IN
       /\ (IF f[1] THEN 1 ELSE 0) + (IF f[2] THEN 1 ELSE 0) + (IF f[3] THEN 1 ELSE 0) = 1
       /\ ((f[4] \/ f[5] \/ f[6] \/ f[7] \/ f[8]) => f[3])
=============================================================================
