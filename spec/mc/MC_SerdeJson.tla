----------------------------- MODULE MC_SerdeJson -----------------------------
(* Bounded check of the design-level laws of SerdeJson.tla. *)
EXTENDS SerdeJson, TLC, Json

Keys == {<<97>>, <<98>>, <<>>}
Atoms == {SNull, SNum("pos", 7), SNum("neg", -3), SNum("float", 15)}
Maps1 == {SMap(m) : m \in {mm \in SUBSET (Keys \X Atoms) : \A x, y \in mm : x[1] = y[1] => x = y}}
Level1 == Atoms \cup {SArr(<<>>)} \cup {SArr(<<x>>) : x \in Atoms} \cup Maps1
Level2 == Level1 \cup {SArr(<<x, y>>) : x \in Maps1, y \in Atoms} \cup {SMap({<<<<97>>, x>>}) : x \in Level1}

VARIABLE s
vars == <<s>>
JInit == s \in Level2
JNext == UNCHANGED vars
JSpec == JInit /\ [][JNext]_vars
Laws == ToSJ(FromSJ(s)) = s
\* maps are printed as their sorted entry lists
RECURSIVE Show(_)
Show(x) == CASE x.t = "arr" -> [t |-> "arr", items |-> [i \in 1..Len(x.items) |-> Show(x.items[i])]]
             [] x.t = "map" -> [t |-> "obj", entries |-> [i \in 1..Cardinality(x.m) |-> LET e == SetToSeq(x.m)[i] IN [k |-> e[1], v |-> Show(e[2])]]]
             [] x.t = "obj" -> [t |-> "obj", entries |-> [i \in 1..Len(x.entries) |-> [k |-> x.entries[i][1], v |-> Show(x.entries[i][2])]]]
             [] OTHER -> x
Dump == PrintT(ToJson([k |-> "sj", s |-> Show(s), js |-> Show(FromSJ(s))]))
=============================================================================
