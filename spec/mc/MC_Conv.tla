------------------------------- MODULE MC_Conv -------------------------------
(***************************************************************************)
(* C11, typed conversions: every small document x every type shape.  The    *)
(* document text is produced by the printer specification (with spacing,    *)
(* so that offsets and byte positions differ), the expected result by       *)
(* CodeMapNav!Convert: success, or the offset / found kind / expected kind  *)
(* of the first offending fragment.  Because the value set contains every   *)
(* small value, a wrong-kind value is planted at every position of every    *)
(* conforming document.                                                     *)
(***************************************************************************)
EXTENDS CodeMapNav, JsonPrinter, TLC, Json

CONSTANTS Depth, Width, Keys, Leaves

ValueSet == Values(Depth, Width, Keys, Leaves, 0)

Num == <<"num">>
TypeSet == {<<"unit">>, <<"bool">>, Num, <<"str">>,
            <<"vec", <<"bool">>>>, <<"vec", Num>>, <<"vec", <<"vec", Num>>>>,
            <<"map", Num>>, <<"map", <<"vec", Num>>>>, <<"vec", <<"map", Num>>>>,
            <<"opt", Num>>, <<"box", Num>>, <<"vec", <<"opt", <<"box", Num>>>>>>,
            <<"map", <<"opt", <<"vec", <<"str">>>>>>>>, <<"map", <<"map", <<"unit">>>>>>}

VARIABLES v, T
vars == <<v, T>>
CInit == v \in ValueSet /\ T \in TypeSet
CNext == UNCHANGED vars
CSpec == CInit /\ [][CNext]_vars

Spaced == [Inline EXCEPT !.obcol = 1, !.aem = 1]

Dump == PrintT(ToJson([k |-> "conv", w |-> Render(v, Spaced), v |-> v, T |-> T, err |-> Convert(v, T, 0)]))

\* an error offset always designates a fragment of the document, and that fragment is a value
ErrInRange == LET r == Convert(v, T, 0) IN
              r[1] # -1 => (r[1] < NFrag(v) /\ Fragments(v)[r[1] + 1].fk = "value"
                            /\ KindOf(Fragments(v)[r[1] + 1].val) = r[2])
=============================================================================
