----------------------------- MODULE MC_Printer -----------------------------
(***************************************************************************)
(* Values x option records.  Every pair is printed as a replay vector       *)
(* (value, options, expected text).  Design-level theorems checked for      *)
(* every pair: the text is strict JSON that parses back to the value (C04), *)
(* options only change insignificant whitespace, the compact form has no    *)
(* whitespace outside strings (C08), width limits are respected and the     *)
(* presets without limits never break lines (C13).                          *)
(***************************************************************************)
EXTENDS JsonPrinter, JsonParser, TLC, Json

CONSTANTS ValueSet, OptionSet

VARIABLES v, o
vars == <<v, o>>
PInit == v \in ValueSet /\ o \in OptionSet
PNext == UNCHANGED vars
PSpec == PInit /\ [][PNext]_vars

Text == Render(v, o)

\* `preset`: the name of the documented preset this option record is (the library's constructor of that name must return
\* exactly this record, and the convenience method of that name must print exactly this text)
PresetName == IF o = Compact THEN "compact" ELSE IF o = Pretty THEN "pretty" ELSE IF o = Inline THEN "inline" ELSE ""
Dump == PrintT(ToJson([k |-> "print", v |-> v, o |-> o, text |-> Text, preset |-> PresetName]))

\* C04: the printed text is a strict document denoting the original value
ParseOfPrint == LET r == Run(Text, Strict) IN r.mode = "done" /\ r.val = v
\* options only ever change insignificant whitespace
OnlyWhitespaceDiffers == StripWs(Text) = Render(v, Compact)
\* C08: compact output contains no whitespace outside strings
CompactMinimal == StripWs(Render(v, Compact)) = Render(v, Compact)
\* C13: without limits nothing is ever expanded
NoLimitSingleLine == (o.alim = <<"none">> /\ o.olim = <<"none">>) => \A i \in 1..Len(Text) : Text[i] # 10

-----------------------------------------------------------------------------
\* The bounded domain.
S(str) == VStr(str)
N(str) == VNum(str)
E(k, x) == Entry(k, x)

Scalars == {VNull, VBool(TRUE), VBool(FALSE), N(<<48>>), N(<<45, 49, 46, 53, 101, 43, 51>>), N(<<50, 46, 53, 48, 69, 45, 55>>), N(<<49, 69, 53>>), N(<<49, 50, 51, 52, 53, 54, 55, 56, 57, 48, 49, 50>>),
            S(<<>>), S(<<97>>), S(<<34, 92, 47>>), S(<<8, 9, 10, 12, 13>>), S(<<0, 31, 127>>), S(<<233, 8232, 65536, 1114111>>)}

Small == {VArr(<<>>), VObj(<<>>),
          VArr(<<N(<<49>>)>>), VArr(<<N(<<49>>), N(<<50>>)>>), VArr(<<N(<<49>>), N(<<50>>), N(<<51>>)>>),
          VObj(<<E(<<97>>, N(<<49>>))>>), VObj(<<E(<<97>>, N(<<49>>)), E(<<98>>, VNull)>>),
          VObj(<<E(<<97>>, N(<<49>>)), E(<<97>>, N(<<50>>))>>), VObj(<<E(<<>>, S(<<>>))>>),
          VObj(<<E(<<34, 10>>, S(<<8232>>))>>)}

Nested == {VArr(<<VArr(<<>>)>>), VArr(<<VObj(<<>>)>>), VObj(<<E(<<97>>, VArr(<<>>))>>), VObj(<<E(<<97>>, VObj(<<>>))>>),
           VArr(<<VArr(<<>>), VObj(<<>>)>>),
           VArr(<<VArr(<<N(<<49>>), N(<<50>>)>>), VArr(<<N(<<51>>)>>)>>),
           VArr(<<N(<<49>>), VArr(<<N(<<50>>), VArr(<<N(<<51>>), VArr(<<>>)>>)>>)>>),
           VObj(<<E(<<97>>, VArr(<<N(<<49>>), N(<<50>>)>>)), E(<<98>>, VObj(<<E(<<99>>, VBool(TRUE))>>))>>),
           VArr(<<VObj(<<E(<<97>>, N(<<49>>)), E(<<98>>, N(<<50>>))>>), VObj(<<E(<<97>>, N(<<49>>))>>)>>),
           VObj(<<E(<<107>>, VObj(<<E(<<107>>, VObj(<<E(<<107>>, VArr(<<VNull>>))>>))>>))>>),
           VArr(<<S(<<120, 120, 120, 120, 120, 120, 120, 120, 120, 120>>), S(<<121>>)>>),
           VObj(<<E(<<108, 111, 110, 103, 107, 101, 121>>, N(<<49>>)), E(<<98>>, VArr(<<VBool(FALSE), VNull>>))>>)}

AllValues == Scalars \cup Small \cup Nested

\* String families: EVERY string of at most StrLen characters over one representative per escaping class
\* (plain ASCII, 2/3/4-byte raw characters, short-escaped and \u00xx-escaped controls, quote, backslash, DEL),
\* as a root value, as an array item and as key + value of an entry; and long strings with one special
\* character after n plain ones (buffer / run boundaries of the string writer)
StrAlphabet == {97, 233, 8364, 128512, 10, 1, 31, 34, 92, 127}
StrLen == 3
StrsUpTo(n) == UNION {[1..m -> StrAlphabet] : m \in 0..n}
StringFamily == UNION {{S(x), VArr(<<S(x), S(x)>>), VObj(<<E(x, S(x))>>)} : x \in StrsUpTo(StrLen)}
PadOf(c, n) == [i \in 1..n |-> c]
PadMax == 140
PadStrings == UNION {{S(PadOf(97, n) \o <<c>>), S(PadOf(97, n) \o <<c, 98>>), VObj(<<E(PadOf(97, n) \o <<c>>, VNull)>>)} :
                        n \in 0..PadMax, c \in {1, 10, 34, 233, 128512}}
StringValues == StringFamily \cup PadStrings
StringOptions == {Compact, Pretty}

Limits == {<<"none">>, <<"always">>, <<"item", 0>>, <<"item", 1>>, <<"item", 2>>}
          \cup {<<"width", w>> : w \in {0, 2, 3, 4, 5, 6, 7, 8, 9, 10, 12, 16}}
          \cup {<<"iow", 1, 16>>, <<"iow", 2, 8>>, <<"iow", 0, 100>>, <<"iow", 5, 5>>}

Skewed == [indent |-> <<"spaces", 1>>,
           ab |-> 3, ae |-> 0, aem |-> 2, abc |-> 1, aac |-> 0, alim |-> <<"none">>,
           ob |-> 0, oe |-> 2, oem |-> 1, obc |-> 0, oac |-> 2, obcol |-> 1, oacol |-> 0, olim |-> <<"none">>]

Presets == {Pretty, Compact, Inline}
OneField == {[base EXCEPT ![f] = x] : base \in {Pretty, Inline}, f \in NumFields, x \in 0..3}
Indents == {[Pretty EXCEPT !.indent = u] : u \in {<<"spaces", n>> : n \in 0..4} \cup {<<"tabs", n>> : n \in 0..2}}
WithLimits == {[base EXCEPT !.alim = la, !.olim = lo] : base \in {Skewed, Pretty, Compact}, la \in Limits, lo \in Limits}
SameLimits == {[base EXCEPT !.alim = la, !.olim = la] : base \in {Skewed, Pretty, Compact}, la \in Limits}
             \cup {[base EXCEPT !.alim = la, !.olim = lo] : base \in {Skewed}, la \in Limits, lo \in {<<"none">>, <<"always">>}}
             \cup {[base EXCEPT !.alim = lo, !.olim = la] : base \in {Skewed}, la \in Limits, lo \in {<<"none">>, <<"always">>}}

QuickOptions == Presets \cup OneField \cup Indents \cup SameLimits
ThoroughOptions == Presets \cup OneField \cup Indents \cup WithLimits
=============================================================================
