------------------------------ MODULE MC_Serde ------------------------------
(***************************************************************************)
(* C16 / C17, serializer side: every small data-model term with its         *)
(* expected encoding (a JSON value, or the error kind).  The harness drives *)
(* the real json_syntax::Serializer with each term through a generic        *)
(* `Serialize` implementation, and serde_json's value serializer with the   *)
(* same term: json-syntax must equal the specification, and where           *)
(* serde_json succeeds it must produce the same shape (this validates the   *)
(* specification against the comparison target named by C16).               *)
(***************************************************************************)
EXTENDS SerdeSer, TLC, Json

T(d) == [d |-> d]
UnitT == T("unit")  NoneT == T("none")  UnitStructT == T("unit_struct")
BoolT(b) == [d |-> "bool", b |-> b]
IntT(n) == [d |-> "int", n |-> n]
CharT(c) == [d |-> "char", c |-> c]
StrT(s) == [d |-> "str", s |-> s]
BytesT(bs) == [d |-> "bytes", bs |-> bs]
NaNT == [d |-> "float", cls |-> "nan", w |-> 64]
SomeT(x) == [d |-> "some", x |-> x]
NewtypeStructT(x) == [d |-> "newtype_struct", x |-> x]
UnitVariantT(n) == [d |-> "unit_variant", name |-> n]
NewtypeVariantT(n, x) == [d |-> "newtype_variant", name |-> n, x |-> x]
SeqT(xs) == [d |-> "seq", xs |-> xs]
TupleT(xs) == [d |-> "tuple", xs |-> xs]
TupleStructT(xs) == [d |-> "tuple_struct", xs |-> xs]
TupleVariantT(n, xs) == [d |-> "tuple_variant", name |-> n, xs |-> xs]
MapT(kvs) == [d |-> "map", kvs |-> kvs]
StructT(fs) == [d |-> "struct", fields |-> fs]
StructVariantT(n, fs) == [d |-> "struct_variant", name |-> n, fields |-> fs]

A == <<65>>  BB == <<66>>  a == <<97>>  b == <<98>>
NumStr == <<49, 46, 53>>          \* "1.5"
BadNumStr == <<48, 49>>            \* "01"

Leaves == {UnitT, NoneT, UnitStructT, BoolT(TRUE), IntT(<<55>>), IntT(<<45, 51>>), CharT(99), StrT(<<115>>), StrT(Token), StrT(NumStr),
           UnitVariantT(A), NaNT, BytesT(<<<<49>>, <<50, 53, 53>>>>)}
SmallLeaves == {UnitT, IntT(<<55>>), StrT(NumStr), StrT(BadNumStr), UnitVariantT(A)}
Keys == {StrT(a), StrT(b), StrT(Token), CharT(99), IntT(<<53>>), IntT(<<45, 49>>), UnitVariantT(A), NewtypeStructT(StrT(a)),
         BoolT(TRUE), UnitT, NaNT, SomeT(StrT(a)), SeqT(<<>>)}
FieldNames == {a, b, Token}

KV == {<<k, v>> : k \in Keys, v \in SmallLeaves}
Fields == {<<n, v>> : n \in FieldNames, v \in SmallLeaves}

D1 == Leaves
      \cup {SomeT(x) : x \in Leaves} \cup {NewtypeStructT(x) : x \in Leaves}
      \cup {NewtypeVariantT(A, x) : x \in Leaves}
      \cup {SeqT(xs) : xs \in SeqsUpTo(SmallLeaves, 2)} \cup {TupleT(xs) : xs \in SeqsUpTo(SmallLeaves, 2)}
      \cup {TupleStructT(xs) : xs \in SeqsUpTo(SmallLeaves, 1)}
      \cup {TupleVariantT(BB, xs) : xs \in SeqsUpTo(SmallLeaves, 2)}
      \cup {MapT(kvs) : kvs \in SeqsUpTo(KV, 2)}
      \cup {StructT(fs) : fs \in SeqsUpTo(Fields, 2)}
      \cup {StructVariantT(A, fs) : fs \in SeqsUpTo(Fields, 2)}

Inner == {MapT(<<<<StrT(a), IntT(<<55>>)>>, <<StrT(b), UnitT>>, <<StrT(a), StrT(<<115>>)>>>>),
          MapT(<<<<StrT(Token), StrT(NumStr)>>>>), MapT(<<<<BoolT(TRUE), UnitT>>>>),
          SeqT(<<IntT(<<55>>), NoneT>>), NewtypeVariantT(A, NoneT), StructVariantT(A, <<<<a, UnitT>>, <<a, IntT(<<55>>)>>>>),
          StructT(<<<<Token, StrT(NumStr)>>>>), StructT(<<<<a, StrT(Token)>>, <<Token, StrT(NumStr)>>>>), TupleVariantT(BB, <<>>), UnitVariantT(A)}
D2 == {SeqT(<<x, y>>) : x \in Inner, y \in {UnitT}} \cup {SomeT(x) : x \in Inner} \cup {NewtypeVariantT(BB, x) : x \in Inner}
      \cup {MapT(<<<<StrT(a), x>>, <<StrT(b), y>>>>) : x \in Inner, y \in Inner}
      \cup {StructVariantT(BB, <<<<b, x>>>>) : x \in Inner} \cup {StructT(<<<<a, x>>, <<b, x>>>>) : x \in Inner}
      \cup {MapT(<<<<NewtypeStructT(NewtypeStructT(IntT(<<53>>))), x>>>>) : x \in Inner}

Terms == D1 \cup D2

VARIABLE d
vars == <<d>>
SInit == d \in Terms
SNext == UNCHANGED vars
SSpec == SInit /\ [][SNext]_vars

Dump == PrintT(ToJson([k |-> "ser", d |-> d, out |-> Encode(d, NoFloats), de |-> DeValue(d, NoFloats)]))

\* the builder never produces duplicate keys, and key order is first-insertion order
RECURSIVE NoDupKeys(_)
NoDupKeys(v) == CASE v.t = "arr" -> \A i \in 1..Len(v.items) : NoDupKeys(v.items[i])
                  [] v.t = "obj" -> /\ \A i, j \in 1..Len(v.entries) : i # j => v.entries[i].k # v.entries[j].k
                                    /\ \A i \in 1..Len(v.entries) : NoDupKeys(v.entries[i].v)
                  [] OTHER -> TRUE
BuilderCollapses == LET r == Encode(d, NoFloats) IN r.ok => NoDupKeys(r.v)
=============================================================================
