----------------------------- MODULE CodeMapNav -----------------------------
(***************************************************************************)
(* Navigation by code-map offsets (C11).  The offset of a fragment is its   *)
(* index in the pre-order fragment list of the root value (= its index in   *)
(* the code map, by C05).                                                   *)
(*   - the mapped iterators / lookups must yield these offsets,             *)
(*   - get_fragment(i) returns the i-th fragment of the traversal and       *)
(*     rejects i >= n with the remaining distance i - n,                    *)
(*   - conversions carrying code-map information report a kind mismatch at  *)
(*     the offset of the offending fragment.                                *)
(***************************************************************************)
EXTENDS Integers, Sequences, JsonValue

RECURSIVE PrefixFrags(_, _)
\* fragments occupied by the first n items
PrefixFrags(items, n) == IF n = 0 THEN 0 ELSE PrefixFrags(items, n - 1) + NFrag(items[n])
RECURSIVE PrefixEntryFrags(_, _)
PrefixEntryFrags(es, n) == IF n = 0 THEN 0 ELSE PrefixEntryFrags(es, n - 1) + 2 + NFrag(es[n].v)

ItemOffsets(items, off)  == [i \in 1..Len(items) |-> off + 1 + PrefixFrags(items, i - 1)]
EntryOffsets(es, off) == [i \in 1..Len(es) |-> LET e == off + 1 + PrefixEntryFrags(es, i - 1) IN <<e, e + 1, e + 2>>]

\* every container of v (whose own offset is off), in pre-order, with the offsets of its children
RECURSIVE Containers(_, _)
Containers(v, off) ==
  CASE v.t = "arr" ->
         LET io == ItemOffsets(v.items, off) IN
         <<[at |-> off, t |-> "arr", items |-> io]>>
         \o Concat([i \in 1..Len(v.items) |-> Containers(v.items[i], io[i])])
    [] v.t = "obj" ->
         LET eo == EntryOffsets(v.entries, off) IN
         <<[at |-> off, t |-> "obj", entries |-> eo, keys |-> [i \in 1..Len(v.entries) |-> v.entries[i].k]]>>
         \o Concat([i \in 1..Len(v.entries) |-> Containers(v.entries[i].v, eo[i][3])])
    [] OTHER -> <<>>

FragBrief(f) == CASE f.fk = "value" -> [fk |-> "value", kind |-> KindOf(f.val), vol |-> f.vol]
                  [] f.fk = "entry" -> [fk |-> "entry", key |-> f.ent.k, vol |-> f.vol]
                  [] f.fk = "key"   -> [fk |-> "key", key |-> f.key, vol |-> 1]

Nav(v) == LET fr == Fragments(v) IN
  [n |-> Len(fr), volume |-> NValues(v),
   frags |-> [i \in 1..Len(fr) |-> FragBrief(fr[i])],
   containers |-> Containers(v, 0)]

GetFragment(v, i) == LET fr == Fragments(v) IN
  IF i < Len(fr) THEN [ok |-> TRUE, frag |-> FragBrief(fr[i + 1])] ELSE [ok |-> FALSE, rem |-> i - Len(fr)]

(***************************************************************************)
(* Typed conversions.  A type shape is                                       *)
(*   <<"unit">> <<"bool">> <<"num">> <<"str">>  scalars (expect one kind)    *)
(*   <<"vec", T>> <<"map", T>> <<"opt", T>> <<"box", T>>                     *)
(* Convert(v, T, off) = <<-1>> on success, else <<offset, found kind,        *)
(* expected kind>> of the FIRST offending fragment in visiting order.        *)
(***************************************************************************)
Expected(T) == CASE T[1] = "unit" -> "null" [] T[1] = "bool" -> "boolean" [] T[1] = "num" -> "number"
                 [] T[1] = "str" -> "string" [] T[1] = "vec" -> "array" [] T[1] = "map" -> "object"

RECURSIVE Convert(_, _, _)
RECURSIVE FirstErr(_, _, _, _)
\* first failing child, visiting children in order
FirstErr(vals, offs, T, i) ==
  IF i > Len(vals) THEN <<-1>>
  ELSE LET r == Convert(vals[i], T, offs[i]) IN IF r[1] # -1 THEN r ELSE FirstErr(vals, offs, T, i + 1)

Convert(v, T, off) ==
  CASE T[1] = "opt" -> IF v.t = "null" THEN <<-1>> ELSE Convert(v, T[2], off)
    [] T[1] = "box" -> Convert(v, T[2], off)
    [] T[1] = "vec" -> IF v.t # "arr" THEN <<off, KindOf(v), "array">>
                       ELSE FirstErr(v.items, ItemOffsets(v.items, off), T[2], 1)
    [] T[1] = "map" -> IF v.t # "obj" THEN <<off, KindOf(v), "object">>
                       ELSE LET eo == EntryOffsets(v.entries, off) IN
                            FirstErr([i \in 1..Len(v.entries) |-> v.entries[i].v],
                                     [i \in 1..Len(v.entries) |-> eo[i][3]], T[2], 1)
    [] OTHER -> IF KindOf(v) = Expected(T) THEN <<-1>> ELSE <<off, KindOf(v), Expected(T)>>
=============================================================================
