//! Code-map navigation (C11).
use crate::proj::{build, project};
use crate::util::*;
use json_syntax::array::JsonArray;
use json_syntax::code_map::Mapped;
use json_syntax::{CodeMap, FragmentRef, Kind, KindSet, Parse, TryFromJson, Unexpected, Value};
use serde_json::{json, Value as J};
use std::cell::RefCell;
use std::collections::BTreeMap;

fn kind_name(k: Kind) -> &'static str {
	match k {
		Kind::Null => "null",
		Kind::Boolean => "boolean",
		Kind::Number => "number",
		Kind::String => "string",
		Kind::Array => "array",
		Kind::Object => "object",
	}
}

fn frag_brief(f: &FragmentRef, vol: usize) -> J {
	match f {
		FragmentRef::Value(v) => json!({"fk": "value", "kind": kind_name(v.kind()), "vol": vol}),
		FragmentRef::Entry(e) => json!({"fk": "entry", "key": str_to_cps(e.key.as_str()), "vol": vol}),
		FragmentRef::Key(k) => json!({"fk": "key", "key": str_to_cps(k.as_str()), "vol": vol}),
	}
}

fn same_frag(a: &FragmentRef, b: &FragmentRef) -> bool {
	match (a, b) {
		(FragmentRef::Value(x), FragmentRef::Value(y)) => std::ptr::eq(*x, *y),
		(FragmentRef::Entry(x), FragmentRef::Entry(y)) => std::ptr::eq(*x, *y),
		(FragmentRef::Key(x), FragmentRef::Key(y)) => std::ptr::eq(*x, *y),
		_ => false,
	}
}

thread_local! {
	/// when set, code-map spans are byte offsets into the UTF-16 encoding of the source (the document was parsed from
	/// characters whose lengths were reported in UTF-16 bytes)
	pub static NAV_UTF16: std::cell::Cell<bool> = std::cell::Cell::new(false);
}

/// the slice of the source a span designates, in the coordinates the document was parsed with
fn slice_of(src: &str, start: usize, end: usize) -> Option<String> {
	if NAV_UTF16.with(|m| m.get()) {
		if start % 2 != 0 || end % 2 != 0 || start > end {
			return None;
		}
		let units: Vec<u16> = src.encode_utf16().collect();
		units.get(start / 2..end / 2).and_then(|u| String::from_utf16(u).ok())
	} else {
		src.get(start..end).map(|t| t.to_string())
	}
}

thread_local! {
	/// the options the document under navigation was parsed with (its slices are re-parsed with the same ones)
	pub static NAV_OPTIONS: RefCell<json_syntax::parse::Options> = RefCell::new(json_syntax::parse::Options::strict());
}

fn reparse(text: &str) -> Option<Value> {
	let o = NAV_OPTIONS.with(|o| *o.borrow());
	Value::parse_str_with(text, o).ok().map(|(x, _)| x)
}

/// the source text of code-map entry `off` parses to / is the element
fn span_is(src: &str, cm: &CodeMap, off: usize, f: &FragmentRef) -> bool {
	let e = match cm.get(off) {
		Some(e) => e,
		None => return false,
	};
	let text = match slice_of(src, e.span.start(), e.span.end()) {
		Some(t) => t,
		None => return false,
	};
	let text = text.as_str();
	match f {
		FragmentRef::Value(v) => reparse(text).map(|x| x == **v).unwrap_or(false),
		FragmentRef::Key(k) => reparse(text).map(|x| x.as_str() == Some(k.as_str())).unwrap_or(false),
		FragmentRef::Entry(en) => {
			// "key": value  — wrap in braces to parse it as an object with that single entry
			reparse(&format!("{{{text}}}")).map(|x| x.as_object().map(|o| o.len() == 1 && o.entries()[0] == **en).unwrap_or(false)).unwrap_or(false)
		}
	}
}

/// Check every navigation API of `v` (parsed from `src` with code map `cm`) against the spec's `nav`.
pub fn check_nav(rep: &mut Report, ctx: &J, src: &str, v: &Value, cm: &CodeMap, nav: &J) {
	rep.count("nav_docs");
	rep.add("nav_containers", nav["containers"].as_array().map(|a| a.len()).unwrap_or(0) as u64);
	let mut fail = |what: &str, d: J| rep.mismatch("C11.nav", json!({"what": what, "input": ctx, "detail": d}));
	let n = nav["n"].as_u64().unwrap() as usize;
	let frags = nav["frags"].as_array().unwrap();
	// traverse / get_fragment / volume / count
	if n <= 40 {
		if let Some(route) = iter_routes(&|| v.traverse(), &|(i, f)| json!([i, f.is_value(), f.is_entry()])) {
			fail("traverse(): consuming the traversal this way does not give the fragments next() gives", json!({"route": route}));
		}
	}
	let tr: Vec<(usize, FragmentRef)> = v.traverse().collect();
	if tr.len() != n || tr.iter().enumerate().any(|(i, (j, _))| i != *j) {
		fail("traverse() does not yield the pre-order fragments 0..n", json!({"yielded": tr.len(), "n": n}));
		return;
	}
	if v.volume() != nav["volume"].as_u64().unwrap() as usize || v.count(|_, _| true) != n {
		fail("volume()/count() disagree with the traversal", json!({"volume": v.volume(), "count": v.count(|_, _| true)}));
	}
	for i in 0..n + 3 {
		match v.get_fragment(i) {
			Ok(f) => {
				if i >= n || !same_frag(&f, &tr[i].1) {
					fail("get_fragment(i) is not the i-th fragment of the traversal", json!({"i": i}));
				} else {
					let vol = cm.get(i).map(|e| e.volume).unwrap_or(0);
					if frag_brief(&f, vol) != frags[i] {
						fail("fragment i differs from the specified pre-order fragment (kind / key / volume)", json!({"i": i, "observed": frag_brief(&f, vol), "expected": frags[i]}));
					}
					if !span_is(src, cm, i, &f) {
						fail("code-map span i is not the source text of fragment i", json!({"i": i}));
					}
				}
			}
			Err(rem) => {
				if i < n || rem != i - n {
					fail("get_fragment past the end must be rejected with the remaining distance", json!({"i": i, "n": n, "err": rem}));
				}
			}
		}
	}
	// indices far past the end (up to the largest representable one) are rejected with the remaining distance as well
	for i in [n + 1000, usize::MAX / 2, usize::MAX - 1, usize::MAX] {
		if i >= n {
			match v.get_fragment(i) {
				Err(rem) if rem == i - n => (),
				other => fail("get_fragment far past the end must be rejected with the remaining distance", json!({"i": i.to_string(), "n": n, "observed": other.err().map(|e| e.to_string())})),
			}
		}
	}
	// mapped iterators and lookups of every container
	for c in nav["containers"].as_array().unwrap() {
		let at = c["at"].as_u64().unwrap() as usize;
		let node = match v.get_fragment(at) {
			Ok(FragmentRef::Value(x)) => x,
			_ => {
				fail("container offset is not a value fragment", json!({"at": at}));
				continue;
			}
		};
		if c["t"] == "arr" {
			let a = match node.as_array() {
				Some(a) => a,
				None => {
					fail("expected an array at offset", json!({"at": at}));
					continue;
				}
			};
			let exp: Vec<usize> = c["items"].as_array().unwrap().iter().map(|x| x.as_u64().unwrap() as usize).collect();
			let got: Vec<usize> = a.iter_mapped(cm, at).map(|m| m.offset).collect();
			let items_ok = a.iter_mapped(cm, at).zip(a.iter()).all(|(m, it)| std::ptr::eq(m.value, it));
			let got2: Vec<usize> = node.as_array().unwrap().to_vec().iter_mapped(cm, at).map(|m| m.offset).collect();
			if got != exp || !items_ok || got2 != exp {
				fail("array iter_mapped offsets differ from the items' pre-order indices", json!({"at": at, "observed": got, "expected": exp}));
			}
			if let Some(route) = iter_routes(&|| a.iter_mapped(cm, at), &|m| json!(m.offset)) {
				fail("array iter_mapped: consuming the iterator another way does not give the elements next() gives", json!({"at": at, "route": route}));
			}
			for (m, _) in a.iter_mapped(cm, at).zip(exp.iter()) {
				if !span_is(src, cm, m.offset, &FragmentRef::Value(m.value)) {
					fail("span at a mapped item offset is not the item's source text", json!({"at": at, "offset": m.offset}));
				}
			}
		} else {
			let o = match node.as_object() {
				Some(o) => o,
				None => {
					fail("expected an object at offset", json!({"at": at}));
					continue;
				}
			};
			let exp: Vec<(usize, usize, usize)> = c["entries"].as_array().unwrap().iter().map(|t| (t[0].as_u64().unwrap() as usize, t[1].as_u64().unwrap() as usize, t[2].as_u64().unwrap() as usize)).collect();
			let got: Vec<(usize, usize, usize)> = o.iter_mapped(cm, at).map(|m| (m.offset, m.value.key.offset, m.value.value.offset)).collect();
			if got != exp {
				fail("object iter_mapped offsets differ from the entries' pre-order indices", json!({"at": at, "observed": got, "expected": exp}));
				continue;
			}
			if let Some(route) = iter_routes(&|| o.iter_mapped(cm, at), &|m| json!([m.offset, m.value.key.offset, m.value.value.offset])) {
				fail("object iter_mapped: consuming the iterator another way does not give the elements next() gives", json!({"at": at, "route": route}));
			}
			for (m, e) in o.iter_mapped(cm, at).zip(o.iter()) {
				let ok = std::ptr::eq(m.value.key.value, &e.key) && std::ptr::eq(m.value.value.value, &e.value)
					&& span_is(src, cm, m.offset, &FragmentRef::Entry(e)) && span_is(src, cm, m.value.key.offset, &FragmentRef::Key(&e.key)) && span_is(src, cm, m.value.value.offset, &FragmentRef::Value(&e.value));
				if !ok {
					fail("mapped entry / key / value offset does not designate that element's source text", json!({"at": at, "entry": m.offset}));
				}
			}
			// key-based mapped lookups: every key present (incl. duplicated) and an absent one
			let mut keys: Vec<String> = o.iter().map(|e| e.key.to_string()).collect();
			keys.sort();
			keys.dedup();
			keys.push("\u{2}absent".into());
			for k in keys {
				let k = k.as_str();
				let pos: Vec<usize> = o.iter().enumerate().filter(|(_, e)| e.key.as_str() == k).map(|(i, _)| i).collect();
				let exp_e: Vec<(usize, usize, usize)> = pos.iter().map(|&i| exp[i]).collect();
				let exp_ei: Vec<(usize, (usize, usize, usize))> = pos.iter().map(|&i| (i, exp[i])).collect();
				let exp_v: Vec<usize> = pos.iter().map(|&i| exp[i].2).collect();
				let exp_vi: Vec<(usize, usize)> = pos.iter().map(|&i| (i, exp[i].2)).collect();
				let t = |m: &json_syntax::object::MappedEntry| (m.offset, m.value.key.offset, m.value.value.offset);
				let g_e: Vec<_> = o.get_mapped_entries(cm, at, k).map(|m| t(&m)).collect();
				let g_ei: Vec<_> = o.get_mapped_entries_with_index(cm, at, k).map(|(i, m)| (i, t(&m))).collect();
				let g_v: Vec<_> = o.get_mapped(cm, at, k).map(|m| m.offset).collect();
				let g_vi: Vec<_> = o.get_mapped_with_index(cm, at, k).map(|(i, m)| (i, m.offset)).collect();
				let vals_ok = o.get_mapped(cm, at, k).zip(pos.iter()).all(|(m, &i)| std::ptr::eq(m.value, &o.entries()[i].value));
				if g_e != exp_e || g_ei != exp_ei || g_v != exp_v || g_vi != exp_vi || !vals_ok {
					fail("key-based mapped lookup offsets differ", json!({"at": at, "key": k, "entries": g_e, "expected": exp_e, "values": g_v}));
				}
				let routes = [
					iter_routes(&|| o.get_mapped_entries(cm, at, k), &|m| json!([m.offset, m.value.key.offset, m.value.value.offset])),
					iter_routes(&|| o.get_mapped_entries_with_index(cm, at, k), &|(i, m)| json!([i, m.offset])),
					iter_routes(&|| o.get_mapped(cm, at, k), &|m| json!(m.offset)),
					iter_routes(&|| o.get_mapped_with_index(cm, at, k), &|(i, m)| json!([i, m.offset])),
				];
				if let Some(route) = routes.iter().flatten().next() {
					fail("key-based mapped lookup: consuming the iterator another way does not give the elements next() gives", json!({"at": at, "key": k, "route": route}));
				}
				// unique variants
				let u = |n: usize| if n == 0 { "none" } else if n == 1 { "one" } else { "dup" };
				let cls = [
					match o.get_unique_mapped_entry(cm, at, k) { Ok(None) => ("none", vec![]), Ok(Some(m)) => ("one", vec![t(&m).0]), Err(d) => ("dup", vec![t(&d.0).0, t(&d.1).0]) },
					match o.get_unique_mapped_entry_with_index(cm, at, k) { Ok(None) => ("none", vec![]), Ok(Some((_, m))) => ("one", vec![t(&m).0]), Err(d) => ("dup", vec![t(&d.0 .1).0, t(&d.1 .1).0]) },
				];
				let cls_v = [
					match o.get_unique_mapped(cm, at, k) { Ok(None) => ("none", vec![]), Ok(Some(m)) => ("one", vec![m.offset]), Err(d) => ("dup", vec![d.0.offset, d.1.offset]) },
					match o.get_unique_mapped_with_index(cm, at, k) { Ok(None) => ("none", vec![]), Ok(Some((_, m))) => ("one", vec![m.offset]), Err(d) => ("dup", vec![d.0 .1.offset, d.1 .1.offset]) },
				];
				let want_e: Vec<usize> = exp_e.iter().take(2).map(|x| x.0).collect();
				let want_v: Vec<usize> = exp_v.iter().take(2).cloned().collect();
				for (c, offs) in cls.iter() {
					if *c != u(pos.len()) || *offs != want_e {
						fail("get_unique_mapped_entry* differs", json!({"at": at, "key": k, "class": c, "offsets": offs, "expected": want_e}));
					}
				}
				for (c, offs) in cls_v.iter() {
					if *c != u(pos.len()) || *offs != want_v {
						fail("get_unique_mapped* differs", json!({"at": at, "key": k, "class": c, "offsets": offs, "expected": want_v}));
					}
				}
			}
		}
	}
}

// ---------------------------------------------------------------- typed conversions

thread_local! {
	static VISITS: RefCell<Vec<usize>> = RefCell::new(Vec::new());
}

#[derive(Debug)]
pub struct ConvErr {
	pub offset: usize,
	pub found: Option<Kind>,
	pub expected: Option<KindSet>,
}

impl From<Mapped<Unexpected>> for ConvErr {
	fn from(m: Mapped<Unexpected>) -> Self {
		ConvErr { offset: m.offset, found: Some(m.value.found), expected: Some(m.value.expected) }
	}
}

impl From<Mapped<std::num::ParseIntError>> for ConvErr {
	fn from(m: Mapped<std::num::ParseIntError>) -> Self {
		ConvErr { offset: m.offset, found: None, expected: None }
	}
}

impl From<Mapped<std::convert::Infallible>> for ConvErr {
	fn from(m: Mapped<std::convert::Infallible>) -> Self {
		ConvErr { offset: m.offset, found: None, expected: None }
	}
}

/// harness-defined leaves: delegate to the crate's scalar conversions, record the offset visited
macro_rules! leaf {
	($name:ident, $inner:ty) => {
		#[derive(Debug)]
		pub struct $name;
		impl TryFromJson for $name {
			type Error = ConvErr;
			fn try_from_json_at(json: &Value, code_map: &CodeMap, offset: usize) -> Result<Self, ConvErr> {
				VISITS.with(|v| v.borrow_mut().push(offset));
				<$inner>::try_from_json_at(json, code_map, offset).map(|_| $name).map_err(ConvErr::from)
			}
		}
	};
}
leaf!(LUnit, ());
leaf!(LBool, bool);
leaf!(LStr, String);

#[derive(Debug)]
pub struct LNum;
impl TryFromJson for LNum {
	type Error = ConvErr;
	fn try_from_json_at(json: &Value, code_map: &CodeMap, offset: usize) -> Result<Self, ConvErr> {
		VISITS.with(|v| v.borrow_mut().push(offset));
		match f64::try_from_json_at(json, code_map, offset) {
			Ok(_) => Ok(LNum),
			Err(m) => match m.value {
				json_syntax::TryIntoNumberError::Unexpected(u) => Err(ConvErr { offset: m.offset, found: Some(u.found), expected: Some(u.expected) }),
				json_syntax::TryIntoNumberError::OutOfBounds(_) => Ok(LNum),
			},
		}
	}
}

fn run_conv<T: TryFromJson<Error = ConvErr>>(v: &Value, cm: &CodeMap) -> Result<(), ConvErr> {
	T::try_from_json(v, cm).map(|_| ())
}

type M<T> = BTreeMap<String, T>;

/// A user type converted from a JSON OBJECT (`TryFromJsonObject`): every value of the object converts to `T`.
pub struct ObjVia<T>(std::marker::PhantomData<T>);
impl<T: TryFromJson<Error = ConvErr>> json_syntax::TryFromJsonObject for ObjVia<T> {
	type Error = ConvErr;
	fn try_from_json_object_at(object: &json_syntax::Object, code_map: &CodeMap, offset: usize) -> Result<Self, ConvErr> {
		for entry in object.iter_mapped(code_map, offset) {
			T::try_from_json_at(entry.value.value.value, code_map, entry.value.value.offset)?;
		}
		Ok(ObjVia(std::marker::PhantomData))
	}
}

/// A user type converted from a JSON VALUE that hands objects over to the object traits at whatever offset it is at:
/// `Box<Box<ObjVia<T>>>::try_from_json_object_at(object, code_map, offset)`; anything else is a kind mismatch there.
/// Same verdicts as `BTreeMap<String, T>`.
pub struct ViaObj<T>(std::marker::PhantomData<T>);
impl<T: TryFromJson<Error = ConvErr>> TryFromJson for ViaObj<T> {
	type Error = ConvErr;
	fn try_from_json_at(json: &Value, code_map: &CodeMap, offset: usize) -> Result<Self, ConvErr> {
		use json_syntax::TryFromJsonObject;
		match json {
			Value::Object(o) => Box::<Box<ObjVia<T>>>::try_from_json_object_at(o, code_map, offset).map(|_| ViaObj(std::marker::PhantomData)),
			other => Err(ConvErr { offset, found: Some(other.kind()), expected: Some(KindSet::OBJECT) }),
		}
	}
}

/// the same conversion entered through the object traits: `try_from_json_object` on the root object (offset 0 is
/// implied), directly and through `Box`, and `try_from_json_object_at` at the root
fn convert_object(shape: &str, o: &json_syntax::Object, cm: &CodeMap) -> Option<Vec<Result<(), ConvErr>>> {
	use json_syntax::TryFromJsonObject;
	fn three<T: TryFromJson<Error = ConvErr>>(o: &json_syntax::Object, cm: &CodeMap) -> Vec<Result<(), ConvErr>> {
		vec![
			ObjVia::<T>::try_from_json_object(o, cm).map(|_| ()),
			Box::<ObjVia<T>>::try_from_json_object(o, cm).map(|_| ()),
			Box::<Box<ObjVia<T>>>::try_from_json_object_at(o, cm, 0).map(|_| ()),
		]
	}
	Some(match shape {
		"map(num)" => three::<LNum>(o, cm),
		"map(vec(num))" => three::<Vec<LNum>>(o, cm),
		"map(opt(vec(str)))" => three::<Option<Vec<LStr>>>(o, cm),
		"map(map(unit))" => three::<M<LUnit>>(o, cm),
		_ => return None,
	})
}

/// dispatch on the textual form of the type shape
fn convert(shape: &str, v: &Value, cm: &CodeMap) -> Option<Result<(), ConvErr>> {
	Some(match shape {
		"unit" => run_conv::<LUnit>(v, cm),
		"bool" => run_conv::<LBool>(v, cm),
		"num" => run_conv::<LNum>(v, cm),
		"str" => run_conv::<LStr>(v, cm),
		"vec(bool)" => run_conv::<Vec<LBool>>(v, cm),
		"vec(num)" => run_conv::<Vec<LNum>>(v, cm),
		"vec(vec(num))" => run_conv::<Vec<Vec<LNum>>>(v, cm),
		"map(num)" => run_conv::<M<LNum>>(v, cm),
		"map(vec(num))" => run_conv::<M<Vec<LNum>>>(v, cm),
		"vec(map(num))" => run_conv::<Vec<M<LNum>>>(v, cm),
		"opt(num)" => run_conv::<Option<LNum>>(v, cm),
		"box(num)" => run_conv::<Box<LNum>>(v, cm),
		"vec(opt(box(num)))" => run_conv::<Vec<Option<Box<LNum>>>>(v, cm),
		"map(opt(vec(str)))" => run_conv::<M<Option<Vec<LStr>>>>(v, cm),
		"map(map(unit))" => run_conv::<M<M<LUnit>>>(v, cm),
		_ => return None,
	})
}

fn shape_name(t: &J) -> String {
	let a = t.as_array().unwrap();
	let h = a[0].as_str().unwrap();
	if a.len() == 1 {
		h.to_string()
	} else {
		format!("{h}({})", shape_name(&a[1]))
	}
}

pub fn replay_conv(rep: &mut Report, rec: &J) {
	rep.count("conv_vectors");
	let src = cps_to_string(&rec["w"]).unwrap();
	let (v, cm) = match guarded(|| Value::parse_str(&src)) {
		Ok(Ok(x)) => x,
		_ => {
			rep.mismatch("C11.conv", json!({"what": "document of a conversion vector does not parse", "vector": rec}));
			return;
		}
	};
	if build(&rec["v"]).ok().as_ref() != Some(&v) {
		// a C02 matter; the conversion check needs the specified value
		rep.count("conv_skipped_value_differs");
		return;
	}
	let shape = shape_name(&rec["T"]);
	VISITS.with(|x| x.borrow_mut().clear());
	let r = match guarded(|| convert(&shape, &v, &cm)) {
		Ok(Some(r)) => r,
		Ok(None) => tool_error(&format!("conv vector: unknown type shape {shape}")),
		Err(p) => {
			rep.mismatch("C11.conv", json!({"what": "conversion panicked", "vector": rec, "panic": p}));
			return;
		}
	};
	rep.count("conv_calls");
	let exp = rec["err"].as_array().unwrap();
	let got = match &r {
		Ok(()) => json!([-1]),
		Err(e) => json!([e.offset, e.found.map(kind_name), e.expected.map(|s| s.as_disjunction().to_string())]),
	};
	if exp != got.as_array().unwrap() {
		rep.mismatch("C11.conv", json!({"what": "conversion does not report the kind mismatch at the offset of the offending fragment", "vector": rec, "type": shape, "observed": got}));
	}
	// a map whose KEY type does not parse from the key text: the error is reported at the KEY fragment of the first such entry.
	// For a root object whose first key is not a decimal number below 256 that is fragment 2 (root 0, first entry 1, its key 2:
	// CodeMapNav pre-order); when the first key does parse the case is left alone.
	if let (Value::Object(o), true) = (&v, shape == "map(num)") {
		if let Some(first) = o.entries().first() {
			if first.key.as_str().parse::<u8>().is_err() {
				rep.count("conv_calls");
				match guarded(|| run_conv::<BTreeMap<u8, LNum>>(&v, &cm)) {
					Ok(Err(e)) if e.offset == 2 && e.found.is_none() => (),
					other => rep.mismatch("C11.conv", json!({"what": "a key that does not parse as the key type is not reported at the index of the key fragment", "vector": rec, "type": "map<u8>(num)",
						"expected_offset": 2, "observed": match other { Ok(Ok(())) => json!("ok"), Ok(Err(e)) => json!([e.offset, e.found.map(kind_name)]), Err(p) => json!(["panic", p]) }})),
				}
			}
		}
	}
	// maps anywhere in the type converted through the object traits (non-zero offsets)
	let via = match shape.as_str() {
		"map(num)" => Some(guarded(|| run_conv::<ViaObj<LNum>>(&v, &cm))),
		"map(vec(num))" => Some(guarded(|| run_conv::<ViaObj<Vec<LNum>>>(&v, &cm))),
		"vec(map(num))" => Some(guarded(|| run_conv::<Vec<ViaObj<LNum>>>(&v, &cm))),
		"map(opt(vec(str)))" => Some(guarded(|| run_conv::<ViaObj<Option<Vec<LStr>>>>(&v, &cm))),
		"map(map(unit))" => Some(guarded(|| run_conv::<ViaObj<ViaObj<LUnit>>>(&v, &cm))),
		_ => None,
	};
	if let Some(r) = via {
		rep.count("conv_calls");
		let got = match &r {
			Ok(Ok(())) => json!([-1]),
			Ok(Err(e)) => json!([e.offset, e.found.map(kind_name), e.expected.map(|s| s.as_disjunction().to_string())]),
			Err(p) => json!(["panic", p]),
		};
		if exp != got.as_array().unwrap() {
			rep.mismatch("C11.conv", json!({"what": "conversion of maps through the object traits (Box<T>: TryFromJsonObject at the map's own offset) does not report the kind mismatch at the offset of the offending fragment", "vector": rec, "type": shape, "observed": got}));
		}
	}
	if let Value::Object(o) = &v {
		if let Ok(Some(rs)) = guarded(|| convert_object(&shape, o, &cm)) {
			for (how, r) in ["try_from_json_object", "Box::try_from_json_object", "Box<Box>::try_from_json_object_at(.., 0)"].iter().zip(rs) {
				rep.count("conv_calls");
				let got = match &r {
					Ok(()) => json!([-1]),
					Err(e) => json!([e.offset, e.found.map(kind_name), e.expected.map(|s| s.as_disjunction().to_string())]),
				};
				if exp != got.as_array().unwrap() {
					rep.mismatch("C11.conv", json!({"what": format!("{how}: conversion from the root object does not report the kind mismatch at the offset of the offending fragment"), "vector": rec, "type": shape, "observed": got}));
				}
			}
		} else if ["map(num)", "map(vec(num))", "map(opt(vec(str)))", "map(map(unit))"].contains(&shape.as_str()) {
			rep.mismatch("C11.conv", json!({"what": "conversion from the root object panicked", "vector": rec, "type": shape}));
		}
	}
	rep.note_distinct(hash_of(&(src, shape)));
	let n = rep.counters["conv_vectors"];
	rep.sample(997, n, || json!({"doc": show(&cps_to_string(&rec["w"]).unwrap()), "type": shape_name(&rec["T"]), "expected": rec["err"]}));
	let _ = project;
}


// ------------------------------------------------------------------------- fragment iterators (FragIter.tla)

fn frag_volume(f: &FragmentRef) -> usize {
	match f {
		FragmentRef::Value(v) => v.traverse().count(),
		FragmentRef::Entry(e) => 2 + e.value.traverse().count(),
		FragmentRef::Key(_) => 1,
	}
}

/// One behaviour of MC_FragIter: a value, one of its fragments, a sequence of next()/next_back() calls on its
/// SubFragments iterator with the expected yields; for the root also the whole traversal.
pub fn replay_fragiter(rep: &mut Report, rec: &J) {
	rep.count("fragiter_vectors");
	let v = build(&rec["v"]).unwrap_or_else(|e| tool_error(&format!("fragiter vector: {e}")));
	let fi = rec["fi"].as_u64().unwrap() as usize;
	let r = guarded(|| {
		let f = match v.get_fragment(fi) {
			Ok(f) => f,
			Err(_) => return Err(json!({"what": "get_fragment rejects an index inside the value", "fi": fi})),
		};
		if frag_brief(&f, frag_volume(&f)) != rec["frag"] {
			return Err(json!({"what": "get_fragment(i) is not the i-th fragment of the pre-order list", "observed": frag_brief(&f, frag_volume(&f))}));
		}
		let mut it = f.sub_fragments();
		let mut got = vec![];
		for c in rec["calls"].as_array().unwrap() {
			let y = if c.as_str() == Some("front") { it.next() } else { it.next_back() };
			got.push(match y {
				Some(y) => frag_brief(&y, frag_volume(&y)),
				None => json!({"fk": "none"}),
			});
		}
		if J::Array(got.clone()) != rec["ys"] {
			return Err(json!({"what": "SubFragments yields differ from the double-ended iterator specification", "observed": got}));
		}
		if let Some(tr) = rec["trav"].as_array() {
			if !tr.is_empty() {
				let obs: Vec<J> = v.traverse().map(|(_, f)| frag_brief(&f, frag_volume(&f))).collect();
				let offs_ok = v.traverse().enumerate().all(|(i, (j, _))| i == j);
				if &obs != tr || !offs_ok {
					return Err(json!({"what": "traverse() is not the pre-order fragment list numbered from 0", "observed": obs}));
				}
			}
		}
		Ok(())
	});
	match r {
		Ok(Ok(())) => (),
		Ok(Err(d)) => rep.mismatch("C11.fragiter", json!({"detail": d, "vector": rec})),
		Err(p) => rep.mismatch("C11.fragiter", json!({"detail": {"what": "panic", "panic": p}, "vector": rec})),
	}
	rep.note_distinct(hash_of(&rec.to_string()));
	let n = rep.counters["fragiter_vectors"];
	rep.sample(9973, n, || json!({"value": project(&v).to_string(), "fragment": rec["fi"], "calls": rec["calls"], "yields": rec["ys"]}));
}

// ------------------------------------------------------------------------- impl -> spec

fn shape_json(name: &str) -> J {
	// "vec(opt(box(num)))" -> ["vec", ["opt", ["box", ["num"]]]]
	match name.find('(') {
		None => json!([name]),
		Some(i) => json!([&name[..i], shape_json(&name[i + 1..name.len() - 1])]),
	}
}

const SHAPES: [&str; 15] = ["unit", "bool", "num", "str", "vec(bool)", "vec(num)", "vec(vec(num))", "map(num)", "map(vec(num))", "vec(map(num))", "opt(num)", "box(num)",
	"vec(opt(box(num)))", "map(opt(vec(str)))", "map(map(unit))"];

/// a document that conforms to `shape`, with (sometimes) one wrong-kind value planted somewhere
fn conforming(rng: &mut Rng, shape: &str, plant: &mut bool) -> String {
	if *plant && rng.chance(1, 6) {
		*plant = false;
		return rng.pick(&["null", "true", "7", "\"s\"", "[]", "{}", "[1]", "{\"k\":null}"]).to_string();
	}
	let inner = |s: &str| s[s.find('(').unwrap() + 1..s.len() - 1].to_string();
	if shape.starts_with("vec(") {
		let n = rng.below(4);
		let items: Vec<String> = (0..n).map(|_| conforming(rng, &inner(shape), plant)).collect();
		format!("[ {} ]", items.join(" , "))
	} else if shape.starts_with("map(") {
		let n = rng.below(4);
		let items: Vec<String> = (0..n).map(|i| format!("\"{}\": {}", ["a", "b", "a", "\u{e9}"][i % 4], conforming(rng, &inner(shape), plant))).collect();
		format!("{{{}}}", items.join(","))
	} else if shape.starts_with("opt(") {
		if rng.chance(1, 3) { "null".into() } else { conforming(rng, &inner(shape), plant) }
	} else if shape.starts_with("box(") {
		conforming(rng, &inner(shape), plant)
	} else {
		match shape {
			"unit" => "null".into(),
			"bool" => rng.pick(&["true", "false"]).to_string(),
			"num" => rng.pick(&["0", "-1.5e3", "12"]).to_string(),
			_ => rng.pick(&["\"\"", "\"x\\u00e9\""]).to_string(),
		}
	}
}

pub fn record(args: &Args) {
	let n = args.num("n", 150);
	let out = args.get("out").unwrap_or_else(|| tool_error("record-nav: --out required"));
	let mut rng = Rng::new(seed() ^ 0x4a7);
	let g = crate::gen::DocGen::new();
	let mut lines: Vec<J> = vec![];
	for i in 0..n {
		if i % 2 == 0 {
			let text = g.doc(&mut rng, 1 + i % 4);
			let (v, cm) = match Value::parse_str(&text) {
				Ok(x) => x,
				Err(_) => continue,
			};
			let count = v.traverse().count();
			let mut frags = vec![];
			for k in 0..count {
				match v.get_fragment(k) {
					Ok(f) => frags.push(frag_brief(&f, cm.get(k).map(|e| e.volume).unwrap_or(0))),
					Err(e) => frags.push(json!({"fk": "error", "rem": e})),
				}
			}
			let past_end: Vec<J> = (0..3).map(|d| match v.get_fragment(count + d) { Err(e) => json!(e), Ok(_) => json!("fragment") }).collect();
			let mut containers = vec![];
			for (k, f) in v.traverse() {
				if let FragmentRef::Value(x) = f {
					match x {
						Value::Array(a) => containers.push(json!({"at": k, "t": "arr", "items": a.iter_mapped(&cm, k).map(|m| m.offset).collect::<Vec<_>>()})),
						Value::Object(o) => containers.push(json!({"at": k, "t": "obj", "entries": o.iter_mapped(&cm, k).map(|m| json!([m.offset, m.value.key.offset, m.value.value.offset])).collect::<Vec<_>>(),
							"keys": o.iter().map(|e| str_to_cps(e.key.as_str())).collect::<Vec<_>>()})),
						_ => (),
					}
				}
			}
			lines.push(json!({"ev": "nav", "v": project(&v), "n": count, "volume": v.volume(), "frags": frags, "containers": containers, "past_end": past_end}));
		} else {
			let shape = *rng.pick(&SHAPES);
			let mut plant = rng.chance(2, 3);
			let text = conforming(&mut rng, shape, &mut plant);
			let (v, cm) = match Value::parse_str(&text) {
				Ok(x) => x,
				Err(_) => continue,
			};
			VISITS.with(|x| x.borrow_mut().clear());
			let r = match guarded(|| convert(shape, &v, &cm)) {
				Ok(Some(r)) => r,
				_ => continue,
			};
			let result = match &r {
				Ok(()) => json!([-1]),
				Err(e) => json!([e.offset, e.found.map(kind_name), e.expected.map(|s| s.as_disjunction().to_string())]),
			};
			lines.push(json!({"ev": "conv", "v": project(&v), "T": shape_json(shape), "result": result, "text": text}));
		}
	}
	use std::io::Write;
	let mut f = std::fs::File::create(out).unwrap_or_else(|e| tool_error(&format!("create {out}: {e}")));
	for l in &lines {
		writeln!(f, "{}", l).unwrap();
	}
	println!("SUMMARY {}", json!({"events": lines.len(), "samples": lines.iter().filter(|l| l["ev"] == "conv").take(2).collect::<Vec<_>>()}));
}
