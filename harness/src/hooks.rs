//! Event sink shared by the harness-side iterator (pull events) and the
//! cfg(json_syntax_verif) hooks inside the crate (begin/end fragment events).
use decoded_char::DecodedChar;
use serde_json::{json, Value as J};
use std::cell::RefCell;

thread_local! {
	static SINK: RefCell<Option<Vec<J>>> = RefCell::new(None);
}

pub fn start() {
	SINK.with(|s| *s.borrow_mut() = Some(Vec::new()));
}

pub fn stop() -> Vec<J> {
	SINK.with(|s| s.borrow_mut().take().unwrap_or_default())
}

pub fn push(ev: J) {
	SINK.with(|s| {
		if let Some(v) = s.borrow_mut().as_mut() {
			v.push(ev)
		}
	});
}

pub fn emit_pull(c: Option<DecodedChar>) {
	json_syntax::verif::emit(match c {
		Some(c) => json_syntax::verif::Event::Mark(c.chr() as i64, c.len()),
		None => json_syntax::verif::Event::Mark(-1, 0),
	});
	push(match c {
		Some(c) => json!({"ev": "pull", "c": c.chr() as u32, "len": c.len()}),
		None => json!({"ev": "pull", "c": -1, "len": 0}),
	});
}
