//! C03: deep nesting inside a small fixed stack (child process + thread).
use crate::util::*;
use json_syntax::parse::{Error, Options};
use json_syntax::{Parse, Value};
use serde_json::{json, Value as J};
use std::io::{Read, Write};

const STACK: usize = 256 * 1024;

fn text_of(rec: &J) -> String {
	let part = |k: &str| cps_to_string(&rec[k]).unwrap();
	let n = rec["n"].as_u64().unwrap() as usize;
	let (pre, mid, post, tail) = (part("pre"), part("mid"), part("post"), part("tail"));
	let mut s = String::with_capacity(n * (pre.len() + post.len()) + mid.len() + tail.len() + 16);
	s.push_str(&cps_to_string(&rec["head"]).unwrap_or_default());
	for _ in 0..n {
		s.push_str(&pre);
	}
	s.push_str(&mid);
	for _ in 0..n {
		s.push_str(&post);
	}
	s.push_str(&tail);
	s
}

/// long BYTE inputs (MC_NestBytes): encode(head pre^n) ++ bad ++ encode(tail) through the slice entry points, in-process
pub fn replay_nestb(rep: &mut Report, rec: &J) {
	rep.count("nestb_vectors");
	let part = |k: &str| cps_to_string(&rec[k]).unwrap_or_default();
	let n = rec["n"].as_u64().unwrap() as usize;
	let mut bytes: Vec<u8> = part("head").into_bytes();
	let pre = part("pre");
	bytes.reserve(n * pre.len() + 16);
	for _ in 0..n {
		bytes.extend_from_slice(pre.as_bytes());
	}
	bytes.extend(rec["bad"].as_array().unwrap().iter().map(|b| b.as_u64().unwrap() as u8));
	bytes.extend_from_slice(part("tail").as_bytes());
	let ctx = json!({"family": rec["name"], "n": n, "bytes": bytes.len(), "vector": rec});
	let quant = |r: Result<Result<(Value, json_syntax::CodeMap), Error<core::convert::Infallible>>, String>| -> J {
		match r {
			Err(p) => json!({"panic": p}),
			Ok(Ok((v, cm))) => {
				let q = json!([1, cm.len()]);
				std::mem::forget(v);
				q
			}
			Ok(Err(Error::Unexpected(p, c))) => json!([0, p, c.map(|c| c as i64).unwrap_or(-1)]),
			Ok(Err(Error::InvalidUtf8(p))) => json!([-2, p]),
			Ok(Err(_)) => json!([-1]),
		}
	};
	for (entry, got) in [("parse_slice", quant(guarded(|| Value::parse_slice(&bytes)))), ("parse_slice_with(strict)", quant(guarded(|| Value::parse_slice_with(&bytes, Options::strict()))))] {
		rep.count("nest_calls");
		if got.get("panic").is_some() {
			rep.mismatch("C03.panic", json!({"what": "parser panicked on a long byte input", "input": ctx, "entry": entry, "observed": got}));
		} else if got != rec["exp"] {
			let aspect = if got[0] != rec["exp"][0] && (got[0] == 1 || rec["exp"][0] == 1) { "C01.nest" } else { "C07.nest" };
			rep.mismatch(aspect, json!({"what": "outcome on a long byte input differs from the byte-level specification (extrapolated)", "input": ctx, "entry": entry, "observed": got, "expected": rec["exp"]}));
		}
	}
	rep.note_distinct(hash_of(&(rec["name"].to_string(), n)));
}

/// runs in the child: parse inside a thread with a fixed small stack
pub fn child() {
	let mut input = String::new();
	std::io::stdin().read_to_string(&mut input).unwrap();
	let rec: J = serde_json::from_str(&input).unwrap_or_else(|e| tool_error(&format!("nest-child: {e}")));
	let text = text_of(&rec);
	let flexible = rec["flexible"].as_bool().unwrap_or(false);
	let slice = rec["slice"].as_bool().unwrap_or(false);
	let handle = std::thread::Builder::new()
		.stack_size(STACK)
		.spawn(move || {
			let o = if flexible { Options::flexible() } else { Options::strict() };
			let r = if slice { Value::parse_slice_with(text.as_bytes(), o) } else { Value::parse_str_with(&text, o) };
			match r {
				Ok((v, cm)) => {
					let m = cm.len();
					let t = |i: usize| {
						let e = &cm[i];
						vec![e.span.start() as i64, e.span.end() as i64, e.volume as i64]
					};
					let mut q: Vec<i64> = vec![1, m as i64];
					q.extend(t(0));
					q.extend(t(if m >= 2 { 1 } else { 0 }));
					q.extend(t(if m >= 3 { 2 } else { 0 }));
					q.extend(t(if m >= 2 { m - 2 } else { 0 }));
					q.extend(t(m - 1));
					// traversing the result fragment by fragment is iterative as well
					let mut count = v.traverse().count();
					let volume = v.volume();
					// ... whichever way the traversal is consumed: asking for its size, collecting it, folding it, stepping it
					// by hand, counting with a predicate (every route must see the same m fragments; a different number is
					// reported through `traverse`)
					let (lo, hi) = v.traverse().size_hint();
					let routes = [
						v.traverse().collect::<Vec<_>>().len(),
						v.traverse().fold(0usize, |n, _| n + 1),
						v.traverse().map(|_| 1usize).sum::<usize>(),
						v.traverse().last().map(|(i, _)| i + 1).unwrap_or(0),
						v.count(|_, _| true),
						{
							let mut it = v.traverse();
							let mut n = 0usize;
							while let Some((i, f)) = it.next() {
								n = i + 1;
								let _ = f.is_value();
							}
							n
						},
					];
					if routes.iter().any(|r| *r != count) || lo > count || hi.map(|h| h < count).unwrap_or(false) {
						count = usize::MAX >> 12;
					}
					std::mem::forget(v); // dropping a deep value is recursive and outside C03
					json!({"q": q, "traverse": count, "volume": volume})
				}
				Err(Error::Unexpected(p, c)) => json!({"q": [0, p, c.map(|c| c as i64).unwrap_or(-1)]}),
				Err(e) => json!({"q": [-1], "err": e.to_string()}),
			}
		})
		.unwrap();
	match handle.join() {
		Ok(j) => println!("{}", j),
		Err(_) => println!("{}", json!({"panic": true})),
	}
	std::io::stdout().flush().unwrap();
	std::process::exit(0);
}

pub fn replay_nest(rep: &mut Report, rec: &J) {
	rep.count("nest_vectors");
	let release = std::env::current_exe().unwrap();
	let debug = std::env::var("JSV_NEST_CHILD_DEBUG").ok().map(std::path::PathBuf::from);
	let mut runs: Vec<(&std::path::Path, &str, bool, bool)> = vec![(&release, "optimised", false, false), (&release, "optimised", true, true)];
	if let Some(d) = &debug {
		runs.push((d, "unoptimised", false, true));
		runs.push((d, "unoptimised", true, false));
	}
	for (exe, build, flexible, slice) in runs {
		let mut req = rec.clone();
		req["flexible"] = json!(flexible);
		req["slice"] = json!(slice);
		rep.count("nest_calls");
		let ctx = json!({"family": rec["name"], "n": rec["n"], "flexible": flexible, "slice_entry": slice, "stack_bytes": STACK, "build": build, "vector": rec});
		// the child gets a generous time budget (a 2*10^6-deep document parses in well under a second):
		// a parser that does not come back is data (C03: "never ... loops"), not a tool failure
		let limit = std::env::var("JSV_NEST_S").ok().and_then(|s| s.parse::<u64>().ok()).unwrap_or(120);
		// Ok(output) | Err(true) = did not return | Err(false) = died
		let run_child = || -> Result<std::process::Output, (bool, String)> {
			let mut child = std::process::Command::new(exe)
				.arg("nest-child")
				.stdin(std::process::Stdio::piped())
				.stdout(std::process::Stdio::piped())
				.stderr(std::process::Stdio::null())
				.spawn()
				.unwrap_or_else(|e| tool_error(&format!("spawn nest-child: {e}")));
			child.stdin.take().unwrap().write_all(req.to_string().as_bytes()).unwrap();
			let t0 = std::time::Instant::now();
			loop {
				match child.try_wait() {
					Ok(Some(_)) => break,
					Ok(None) => {
						if t0.elapsed().as_secs() > limit {
							let _ = child.kill();
							let _ = child.wait();
							return Err((true, String::new()));
						}
						std::thread::sleep(std::time::Duration::from_millis(20));
					}
					Err(e) => tool_error(&format!("wait nest-child: {e}")),
				}
			}
			let out = child.wait_with_output().unwrap();
			if !out.status.success() {
				return Err((false, format!("{:?}", out.status)));
			}
			Ok(out)
		};
		// a stack overflow, an abort or a loop of the code under test happens every time; a machine that stalls or an OOM killer
		// that picks the child does not: a failed run is repeated once and only counts if it fails again
		let out = match run_child().or_else(|_| {
			rep.count("nest_child_runs_repeated");
			run_child()
		}) {
			Ok(out) => out,
			Err((true, _)) => {
				rep.mismatch("C03.hang", json!({"what": format!("parser did not return within {limit} s on a deeply nested document"), "input": ctx}));
				continue;
			}
			Err((false, status)) => {
				rep.mismatch("C03.stack", json!({"what": "parser crashed (stack overflow / abort) on a deeply nested document inside a small fixed stack", "input": ctx, "status": status}));
				continue;
			}
		};
		let got: J = match serde_json::from_slice(&out.stdout) {
			Ok(j) => j,
			Err(_) => {
				rep.mismatch("C03.stack", json!({"what": "child produced no result", "input": ctx}));
				continue;
			}
		};
		if got.get("panic").is_some() {
			rep.mismatch("C03.panic", json!({"what": "parser panicked on a deeply nested document", "input": ctx}));
			continue;
		}
		if got["q"] != rec["exp"] {
			// a wrong outcome on a deep document is a matter of C01/C05/C07, reported there as well
			let aspect = if rec["exp"][0] != got["q"][0] { "C01.nest" } else if rec["exp"][0] == 1 { "C05.nest" } else { "C07.nest" };
			rep.mismatch(aspect, json!({"what": "outcome on a deeply nested document differs from the specification's (extrapolated) outcome", "input": ctx, "observed": got["q"], "expected": rec["exp"]}));
			rep.mismatch("C03.outcome", json!({"what": "deeply nested document: outcome differs from the specification (Ok/Err expected)", "input": ctx, "observed": got["q"], "expected": rec["exp"]}));
		} else if rec["exp"][0] == 1 && got["traverse"] != rec["exp"][1] {
			rep.mismatch("C03.traverse", json!({"what": "traversal of a deep value does not visit every fragment", "input": ctx, "observed": got["traverse"]}));
		}
	}
	rep.note_distinct(hash_of(&(rec["name"].to_string(), rec["n"].to_string())));
	let n = rep.counters["nest_vectors"];
	rep.sample(7, n, || json!({"family": rec["name"], "n": rec["n"], "pre": show(&cps_to_string(&rec["pre"]).unwrap()), "expected": rec["exp"]}));
}
