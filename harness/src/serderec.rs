//! A serde Serializer that records the data-model term a type emits (as the
//! tagged records of SerdeSer.tla), the derive-annotated type family of C16,
//! and the recorder of the serde / serde_json events (C16, C17, C18).
use crate::numgen;
use crate::proj::project;
use crate::serdev::project_sj;
use crate::util::*;
use json_syntax::object::Entry;
use json_syntax::{Parse, Value};
use serde::de::DeserializeOwned;
use serde::ser;
use serde::{Deserialize, Serialize};
use serde_json::{json, Value as J};
use std::collections::BTreeMap;
use std::fmt;

// ------------------------------------------------------------------ recording serializer

#[derive(Debug)]
pub struct RecErr(String);
impl fmt::Display for RecErr {
	fn fmt(&self, f: &mut fmt::Formatter) -> fmt::Result {
		f.write_str(&self.0)
	}
}
impl std::error::Error for RecErr {}
impl ser::Error for RecErr {
	fn custom<T: fmt::Display>(m: T) -> Self {
		RecErr(m.to_string())
	}
}

pub struct Rec;
pub struct RecSeq(&'static str, Option<&'static str>, Vec<J>);
pub struct RecMap(Vec<J>, Option<J>);
pub struct RecStruct(&'static str, Option<&'static str>, Vec<J>);

fn int(n: impl ToString) -> J {
	json!({"d": "int", "n": str_to_cps(&n.to_string())})
}

pub fn float_term(w: u8, bits: u64, finite: bool, nan: bool) -> J {
	if finite {
		json!({"d": "float", "cls": "finite", "w": w, "bits": bits.to_string()})
	} else {
		json!({"d": "float", "cls": if nan { "nan" } else { "inf" }, "w": w})
	}
}

impl ser::Serializer for Rec {
	type Ok = J;
	type Error = RecErr;
	type SerializeSeq = RecSeq;
	type SerializeTuple = RecSeq;
	type SerializeTupleStruct = RecSeq;
	type SerializeTupleVariant = RecSeq;
	type SerializeMap = RecMap;
	type SerializeStruct = RecStruct;
	type SerializeStructVariant = RecStruct;
	fn serialize_bool(self, v: bool) -> Result<J, RecErr> {
		Ok(json!({"d": "bool", "b": v}))
	}
	fn serialize_i8(self, v: i8) -> Result<J, RecErr> {
		Ok(int(v))
	}
	fn serialize_i16(self, v: i16) -> Result<J, RecErr> {
		Ok(int(v))
	}
	fn serialize_i32(self, v: i32) -> Result<J, RecErr> {
		Ok(int(v))
	}
	fn serialize_i64(self, v: i64) -> Result<J, RecErr> {
		Ok(int(v))
	}
	fn serialize_u8(self, v: u8) -> Result<J, RecErr> {
		Ok(int(v))
	}
	fn serialize_u16(self, v: u16) -> Result<J, RecErr> {
		Ok(int(v))
	}
	fn serialize_u32(self, v: u32) -> Result<J, RecErr> {
		Ok(int(v))
	}
	fn serialize_u64(self, v: u64) -> Result<J, RecErr> {
		Ok(int(v))
	}
	fn serialize_f32(self, v: f32) -> Result<J, RecErr> {
		Ok(float_term(32, v.to_bits() as u64, v.is_finite(), v.is_nan()))
	}
	fn serialize_f64(self, v: f64) -> Result<J, RecErr> {
		Ok(float_term(64, v.to_bits(), v.is_finite(), v.is_nan()))
	}
	fn serialize_char(self, v: char) -> Result<J, RecErr> {
		Ok(json!({"d": "char", "c": v as u32}))
	}
	fn serialize_str(self, v: &str) -> Result<J, RecErr> {
		Ok(json!({"d": "str", "s": str_to_cps(v)}))
	}
	fn serialize_bytes(self, v: &[u8]) -> Result<J, RecErr> {
		Ok(json!({"d": "bytes", "bs": v.iter().map(|b| str_to_cps(&b.to_string())).collect::<Vec<_>>()}))
	}
	fn serialize_none(self) -> Result<J, RecErr> {
		Ok(json!({"d": "none"}))
	}
	fn serialize_some<T: ?Sized + Serialize>(self, v: &T) -> Result<J, RecErr> {
		Ok(json!({"d": "some", "x": v.serialize(Rec)?}))
	}
	fn serialize_unit(self) -> Result<J, RecErr> {
		Ok(json!({"d": "unit"}))
	}
	fn serialize_unit_struct(self, _: &'static str) -> Result<J, RecErr> {
		Ok(json!({"d": "unit_struct"}))
	}
	fn serialize_unit_variant(self, _: &'static str, _: u32, variant: &'static str) -> Result<J, RecErr> {
		Ok(json!({"d": "unit_variant", "name": str_to_cps(variant)}))
	}
	fn serialize_newtype_struct<T: ?Sized + Serialize>(self, _: &'static str, v: &T) -> Result<J, RecErr> {
		Ok(json!({"d": "newtype_struct", "x": v.serialize(Rec)?}))
	}
	fn serialize_newtype_variant<T: ?Sized + Serialize>(self, _: &'static str, _: u32, variant: &'static str, v: &T) -> Result<J, RecErr> {
		Ok(json!({"d": "newtype_variant", "name": str_to_cps(variant), "x": v.serialize(Rec)?}))
	}
	fn serialize_seq(self, _: Option<usize>) -> Result<RecSeq, RecErr> {
		Ok(RecSeq("seq", None, vec![]))
	}
	fn serialize_tuple(self, _: usize) -> Result<RecSeq, RecErr> {
		Ok(RecSeq("tuple", None, vec![]))
	}
	fn serialize_tuple_struct(self, _: &'static str, _: usize) -> Result<RecSeq, RecErr> {
		Ok(RecSeq("tuple_struct", None, vec![]))
	}
	fn serialize_tuple_variant(self, _: &'static str, _: u32, variant: &'static str, _: usize) -> Result<RecSeq, RecErr> {
		Ok(RecSeq("tuple_variant", Some(variant), vec![]))
	}
	fn serialize_map(self, _: Option<usize>) -> Result<RecMap, RecErr> {
		Ok(RecMap(vec![], None))
	}
	fn serialize_struct(self, _: &'static str, _: usize) -> Result<RecStruct, RecErr> {
		Ok(RecStruct("struct", None, vec![]))
	}
	fn serialize_struct_variant(self, _: &'static str, _: u32, variant: &'static str, _: usize) -> Result<RecStruct, RecErr> {
		Ok(RecStruct("struct_variant", Some(variant), vec![]))
	}
}

impl RecSeq {
	fn finish(self) -> J {
		match self.1 {
			Some(n) => json!({"d": self.0, "name": str_to_cps(n), "xs": self.2}),
			None => json!({"d": self.0, "xs": self.2}),
		}
	}
}
macro_rules! rec_seq {
	($tr:ident, $m:ident) => {
		impl ser::$tr for RecSeq {
			type Ok = J;
			type Error = RecErr;
			fn $m<T: ?Sized + Serialize>(&mut self, v: &T) -> Result<(), RecErr> {
				self.2.push(v.serialize(Rec)?);
				Ok(())
			}
			fn end(self) -> Result<J, RecErr> {
				Ok(self.finish())
			}
		}
	};
}
rec_seq!(SerializeSeq, serialize_element);
rec_seq!(SerializeTuple, serialize_element);
rec_seq!(SerializeTupleStruct, serialize_field);
rec_seq!(SerializeTupleVariant, serialize_field);

impl ser::SerializeMap for RecMap {
	type Ok = J;
	type Error = RecErr;
	fn serialize_key<T: ?Sized + Serialize>(&mut self, k: &T) -> Result<(), RecErr> {
		self.1 = Some(k.serialize(Rec)?);
		Ok(())
	}
	fn serialize_value<T: ?Sized + Serialize>(&mut self, v: &T) -> Result<(), RecErr> {
		let k = self.1.take().ok_or_else(|| RecErr("value before key".into()))?;
		self.0.push(json!([k, v.serialize(Rec)?]));
		Ok(())
	}
	fn end(self) -> Result<J, RecErr> {
		Ok(json!({"d": "map", "kvs": self.0}))
	}
}

macro_rules! rec_struct {
	($tr:ident) => {
		impl ser::$tr for RecStruct {
			type Ok = J;
			type Error = RecErr;
			fn serialize_field<T: ?Sized + Serialize>(&mut self, k: &'static str, v: &T) -> Result<(), RecErr> {
				self.2.push(json!([str_to_cps(k), v.serialize(Rec)?]));
				Ok(())
			}
			fn end(self) -> Result<J, RecErr> {
				Ok(match self.1 {
					Some(n) => json!({"d": self.0, "name": str_to_cps(n), "fields": self.2}),
					None => json!({"d": self.0, "fields": self.2}),
				})
			}
		}
	};
}
rec_struct!(SerializeStruct);
rec_struct!(SerializeStructVariant);

// ------------------------------------------------------------------ the type family

#[derive(Serialize, Deserialize, PartialEq, Debug, Clone)]
pub struct UnitS;
#[derive(Serialize, Deserialize, PartialEq, Debug, Clone)]
pub struct NewT(i32);
#[derive(Serialize, Deserialize, PartialEq, Debug, Clone)]
pub struct PairS(u8, String);
#[derive(Serialize, Deserialize, PartialEq, Eq, PartialOrd, Ord, Debug, Clone)]
pub enum Kind {
	Alpha,
	Beta,
	Gamma,
}
#[derive(Serialize, Deserialize, PartialEq, Debug, Clone)]
pub enum E {
	U,
	N(i16),
	NOpt(Option<u8>),
	NUnit(()),
	NStruct(UnitS),
	T(i8, char),
	T3(u64, String, Option<f64>),
	S { a: u32, b: Option<bool> },
	SE { e: Option<Box<E>>, k: Kind },
}
#[derive(Serialize, Deserialize, PartialEq, Debug, Clone)]
pub struct Ints {
	a: u8,
	b: u16,
	c: u32,
	d: u64,
	e: i8,
	f: i16,
	g: i32,
	h: i64,
}
#[derive(Serialize, Deserialize, PartialEq, Debug, Clone)]
pub struct Floats {
	a: f32,
	b: f64,
	v: Vec<f64>,
	o: Option<f32>,
	t: (f32, f64),
}
#[derive(Serialize, Deserialize, PartialEq, Debug, Clone)]
pub struct Maps {
	s: BTreeMap<String, i32>,
	i: BTreeMap<i64, bool>,
	u: BTreeMap<u64, u8>,
	i8s: BTreeMap<i8, ()>,
	c: BTreeMap<char, String>,
	k: BTreeMap<Kind, u16>,
	n: BTreeMap<NewKey, Vec<u8>>,
}
#[derive(Serialize, Deserialize, PartialEq, Eq, PartialOrd, Ord, Debug, Clone)]
pub struct NewKey(u32);
#[derive(Serialize, Deserialize, PartialEq, Debug, Clone)]
pub struct Point {
	x: i64,
	y: f64,
	name: String,
	next: Option<Box<Point>>,
	tags: Vec<String>,
}
#[derive(Serialize, Deserialize, PartialEq, Debug, Clone)]
pub struct Nested {
	es: Vec<E>,
	t: (u8, (String, bool)),
	p: Point,
	u: (),
	us: UnitS,
	nt: NewT,
	ps: PairS,
	ch: char,
	m: BTreeMap<String, Vec<E>>,
	oo: Option<Option<u8>>,
	arr: [i16; 3],
}

/// newtype structs around sequences, tuples, options and maps (a newtype is transparent: its payload is encoded as is)
#[derive(Serialize, Deserialize, PartialEq, Debug, Clone)]
pub struct Ids(Vec<u8>);
#[derive(Serialize, Deserialize, PartialEq, Debug, Clone)]
pub struct Rows(Vec<Vec<u8>>);
#[derive(Serialize, Deserialize, PartialEq, Debug, Clone)]
pub struct Pair1((u8,));
#[derive(Serialize, Deserialize, PartialEq, Debug, Clone)]
pub struct OptN(Option<Vec<i8>>);
#[derive(Serialize, Deserialize, PartialEq, Debug, Clone)]
pub struct MapN(BTreeMap<i64, Ids>);
#[derive(Serialize, Deserialize, PartialEq, Debug, Clone)]
pub struct Newtypes {
	ids: Ids,
	rows: Rows,
	p: Pair1,
	o: OptN,
	m: MapN,
	arr1: [Ids; 1],
	e: Vec<E>,
}

/// fields that are SKIPPED when serializing (`skip_serializing_if`: the derive calls `SerializeStruct::skip_field` /
/// `SerializeStructVariant::skip_field`, provided methods whose default does nothing): the Value has no entry for them, as
/// serde_json's rendering has none, and they come back as their defaults
#[derive(Serialize, Deserialize, PartialEq, Debug, Clone)]
pub enum SkipE {
	S {
		#[serde(skip_serializing_if = "Option::is_none", default)]
		x: Option<bool>,
		y: u8,
		#[serde(skip_serializing_if = "Vec::is_empty", default)]
		z: Vec<i8>,
	},
}
#[derive(Serialize, Deserialize, PartialEq, Debug, Clone)]
pub struct Skips {
	a: u8,
	#[serde(skip_serializing_if = "Option::is_none", default)]
	o: Option<u8>,
	#[serde(skip_serializing_if = "Vec::is_empty", default)]
	v: Vec<u8>,
	#[serde(skip_serializing_if = "String::is_empty", default)]
	s: String,
	e: SkipE,
	#[serde(skip_serializing_if = "Option::is_none", default)]
	last: Option<Box<Skips>>,
}

/// an integer of a random LENGTH (1..19 digits), either sign: digit-count boundaries of whatever buffer formats it
fn gen_i64_by_len(rng: &mut Rng) -> i64 {
	let digits = 1 + rng.below(19);
	let mut m: u64 = 1 + rng.below(9) as u64;
	for _ in 1..digits {
		m = m.saturating_mul(10).saturating_add(rng.below(10) as u64);
	}
	let m = m.min(i64::MAX as u64) as i64;
	if rng.chance(1, 2) { -m } else { m }
}

/// large data: sequences and maps past 256 elements, keys and strings past the inline capacities, a long string
#[derive(Serialize, Deserialize, PartialEq, Debug, Clone)]
pub struct Big {
	v: Vec<u16>,
	m: BTreeMap<String, u8>,
	s: String,
	ids: BTreeMap<u64, String>,
	t: Vec<(u8, Option<bool>)>,
	e: Vec<E>,
}

fn gen_string(rng: &mut Rng) -> String {
	let mut s = String::new();
	for _ in 0..rng.below(6) {
		s.push(gen_char(rng));
	}
	s
}
fn gen_char(rng: &mut Rng) -> char {
	match rng.below(8) {
		0 => char::from_u32(rng.below(0x20) as u32).unwrap(),
		1 => *rng.pick(&['"', '\\', '/', '\u{7f}', '\u{2028}', '\u{feff}', '\u{fffd}', '\u{ffff}', '\u{10ffff}', '\u{d7ff}', '\u{e000}']),
		2 => char::from_u32(0x80 + rng.below(0x780) as u32).unwrap(),
		3 => char::from_u32(0x10000 + rng.below(0x100000) as u32).unwrap(),
		4 => char::from_u32(0xe000 + rng.below(0x1fff) as u32).unwrap(),
		_ => (b'a' + rng.below(26) as u8) as char,
	}
}
macro_rules! edge {
	($rng:expr, $edges:expr, $other:expr) => {{
		let other = $other;
		if $rng.chance(2, 3) {
			*$rng.pick(&$edges[..])
		} else {
			other
		}
	}};
}
fn gen_f64(rng: &mut Rng) -> f64 {
	match rng.below(6) {
		0 => *rng.pick(&[0.0, 1.0, -1.5, 0.1, 1e21, 1e-7, f64::MAX, f64::MIN_POSITIVE, 5e-324, 2147483648.0, 9007199254740992.0, 0.30000000000000004, 1e23, f64::EPSILON]),
		1 => (rng.range(-1000000, 1000000) as f64) / 8.0,
		2 => (f32::from_bits(rng.next() as u32 & 0x7f7f_ffff)) as f64, // exactly representable as f32
		_ => {
			let f = numgen::random_double(rng);
			if rng.chance(1, 2) { -f } else { f }
		}
	}
}
fn gen_f32(rng: &mut Rng) -> f32 {
	match rng.below(4) {
		0 => *rng.pick(&[0.0f32, 1.0, -2.5, 0.1, f32::MAX, f32::MIN_POSITIVE, 1e-45, 16777216.0, 3.4028235e38, 1e10]),
		_ => loop {
			let f = f32::from_bits(rng.next() as u32);
			if f.is_finite() && !(f == 0.0 && f.is_sign_negative()) {
				break f;
			}
		},
	}
}
fn gen_e(rng: &mut Rng, depth: usize) -> E {
	match rng.below(if depth == 0 { 8 } else { 9 }) {
		0 => E::U,
		1 => E::N(edge!(rng, [i16::MIN, i16::MAX, 0, -1], rng.range(-300, 300) as i16)),
		2 => E::NOpt(if rng.chance(1, 2) { None } else { Some(edge!(rng, [0, 255], rng.below(256) as u8)) }),
		3 => E::NUnit(()),
		4 => E::NStruct(UnitS),
		5 => E::T(edge!(rng, [i8::MIN, i8::MAX], rng.range(-128, 127) as i8), gen_char(rng)),
		6 => E::T3(edge!(rng, [u64::MAX, 0, 1 << 63, (1 << 53) + 1], rng.next()), gen_string(rng), if rng.chance(1, 2) { None } else { Some(gen_f64(rng)) }),
		7 => E::S { a: edge!(rng, [u32::MAX, 0], rng.next() as u32), b: *rng.pick(&[None, Some(true), Some(false)]) },
		_ => E::SE { e: if rng.chance(1, 3) { None } else { Some(Box::new(gen_e(rng, depth - 1))) }, k: rng.pick(&[Kind::Alpha, Kind::Beta, Kind::Gamma]).clone() },
	}
}
fn gen_point(rng: &mut Rng, depth: usize) -> Point {
	Point {
		x: edge!(rng, [i64::MIN, i64::MAX, 0, -1], rng.next() as i64),
		y: gen_f64(rng),
		name: gen_string(rng),
		next: if depth == 0 || rng.chance(1, 2) { None } else { Some(Box::new(gen_point(rng, depth - 1))) },
		tags: (0..rng.below(3)).map(|_| gen_string(rng)).collect(),
	}
}

/// everything the recorder needs about one instance of a family type
fn typed_event<T: Serialize + DeserializeOwned + PartialEq + fmt::Debug>(tname: &str, d: &T) -> J {
	disturb_de();
	let term = d.serialize(Rec).unwrap_or_else(|e| tool_error(&format!("recording serializer: {e}")));
	let value = crate::serdev::ser_outcome(guarded(|| json_syntax::to_value(d)));
	let same = |x: &T| x == d && format!("{:?}", x) == format!("{:?}", d);
	let back = match guarded(|| json_syntax::to_value(d).ok().and_then(|v| json_syntax::from_value::<T>(v).ok())) {
		Ok(Some(x)) => same(&x),
		_ => false,
	};
	let sj = serde_json::to_value(d).unwrap_or(serde_json::Value::Null);
	let back_sj = match guarded(|| json_syntax::from_value::<T>(Value::from_serde_json(sj.clone())).ok()) {
		Ok(Some(x)) => same(&x),
		_ => false,
	};
	let text = serde_json::to_string(d).unwrap_or_default();
	let back_text = match guarded(|| Value::parse_str(&text).ok().and_then(|(v, _)| json_syntax::from_value::<T>(v).ok())) {
		Ok(Some(x)) => same(&x),
		_ => false,
	};
	// float certificates: every finite float of the term, with the spelling json-syntax produces for it
	let mut floats = vec![];
	collect_floats(&term, &mut floats);
	json!({"ev": "typed", "type": tname, "term": term, "value": value, "sj": project_sj(&sj), "floats": floats,
		"back": back, "back_sj": back_sj, "back_text": back_text, "debug": format!("{:?}", d).chars().take(300).collect::<String>()})
}

fn collect_floats(term: &J, out: &mut Vec<J>) {
	match term {
		J::Object(o) => {
			if o.get("d").and_then(|d| d.as_str()) == Some("float") && o.get("cls").and_then(|c| c.as_str()) == Some("finite") {
				let w = o["w"].as_u64().unwrap() as u8;
				let bits: u64 = o["bits"].as_str().unwrap().parse().unwrap();
				let (neg, m, e, sp) = if w == 32 {
					let f = f32::from_bits(bits as u32);
					let fr = (bits & 0x7f_ffff) as u64;
					let ex = ((bits >> 23) & 0xff) as i32;
					let (m, e) = if ex == 0 { (fr, -149) } else { (fr | (1 << 23), ex - 150) };
					let sp = match json_syntax::to_value(f) { Ok(Value::Number(n)) => n.as_str().to_string(), _ => "?".into() };
					(f.is_sign_negative(), m, e, sp)
				} else {
					let f = f64::from_bits(bits);
					let (m, e) = numgen::parts(f);
					let sp = match json_syntax::to_value(f) { Ok(Value::Number(n)) => n.as_str().to_string(), _ => "?".into() };
					(f.is_sign_negative(), m, e, sp)
				};
				let c = json!({"w": w, "bits": bits.to_string(), "neg": neg, "m": m.to_string().bytes().map(|b| (b - b'0') as u64).collect::<Vec<_>>(), "e": e, "sp": str_to_cps(&sp)});
				if !out.contains(&c) {
					out.push(c);
				}
			}
			for v in o.values() {
				collect_floats(v, out);
			}
		}
		J::Array(a) => a.iter().for_each(|v| collect_floats(v, out)),
		_ => (),
	}
}

fn cert64(sp: &str) -> Option<J> {
	let f: f64 = sp.parse().ok()?;
	if !f.is_finite() {
		return None;
	}
	let (m, e) = numgen::parts(f);
	Some(json!({"sp": str_to_cps(sp), "m": m.to_string().bytes().map(|b| (b - b'0') as u64).collect::<Vec<_>>(), "e": e}))
}

fn numbers_of(v: &Value, out: &mut Vec<String>) {
	match v {
		Value::Number(n) => {
			if !out.iter().any(|s| s == n.as_str()) {
				out.push(n.as_str().to_string())
			}
		}
		Value::Array(a) => a.iter().for_each(|x| numbers_of(x, out)),
		Value::Object(o) => o.iter().for_each(|e| numbers_of(&e.value, out)),
		_ => (),
	}
}

fn num(sp: &str) -> Value {
	Value::Number(json_syntax::NumberBuf::new(sp.as_bytes().into()).unwrap_or_else(|_| tool_error(&format!("invalid number {sp}"))))
}

/// Deserializations of Value that FAIL, deep inside containers, on the current thread (truncated text, a malformed number
/// token, a non-string key): whatever they leave behind must not influence later ones.
pub fn disturb_de() {
	let _ = guarded(|| {
		for bad in ["[[[[[[[[[[1,", "{\"a\":{\"b\":{\"c\":[[[{\"d\":", "[[[[{\"$serde_json::private::Number\":[]}]]]]", "[[[[[[1 2]]]]]]", "{\"a\":[[[[[\"\\uD800\"]]]]]}"] {
			let _ = serde_json::from_str::<Value>(bad);
		}
		let nested = serde_json::json!([[[[[{"$serde_json::private::Number": true}]]]]]);
		let _ = serde_json::from_value::<Value>(nested);
		// typed deserializations FROM a Value that fail deep inside arrays and objects
		let (deep_seq, _) = Value::parse_str("[[[[[[[[[[\"x\"]]]]]]]]]]").unwrap();
		let (deep_map, _) = Value::parse_str("{\"a\":{\"a\":{\"a\":{\"a\":{\"a\":[[[true]]]}}}}}").unwrap();
		type V10 = Vec<Vec<Vec<Vec<Vec<Vec<Vec<Vec<Vec<Vec<u8>>>>>>>>>>;
		type M5 = BTreeMap<String, BTreeMap<String, BTreeMap<String, BTreeMap<String, BTreeMap<String, Vec<Vec<Vec<u8>>>>>>>>;
		for _ in 0..30 {
			let _ = json_syntax::from_value::<V10>(deep_seq.clone());
			let _ = json_syntax::from_value::<M5>(deep_map.clone());
		}
	});
}

/// a Value with every kind of number spelling, strings, duplicate keys (if `dups`)
fn gen_value(rng: &mut Rng, depth: usize, dups: bool, numclass: usize) -> Value {
	let k = if depth == 0 { rng.below(4) } else { rng.below(7) };
	match k {
		0 => rng.pick(&[Value::Null, Value::Boolean(true), Value::Boolean(false)]).clone(),
		1 => Value::String(gen_string(rng).as_str().into()),
		2 | 3 => num(&match numclass {
			// 0: 64-bit integers and short decimals (everything must hold)
			0 => match rng.below(6) {
				// zero in every spelling that has a fraction (spelling must survive; only the sign may be lost)
				5 => rng.pick(&["0.0", "-0.0", "0.00", "0.0e5", "0.0E-2", "-0.000", "0.0e+0", "0", "-0"]).to_string(),
				0 => format!("{}", rng.next() as i64),
				1 => format!("{}", rng.next()),
				2 => rng.pick(&["0", "-0", "18446744073709551615", "-9223372036854775808", "9223372036854775807", "9223372036854775808", "1.5", "-0.0", "0.1", "1.0", "4.50", "1.0e2", "12.5E-3", "1.7976931348623157e308", "5e-324", "0.000001"]).to_string(),
				3 => format!("{}.{}", rng.below(1000), rng.below(1000)),
				_ => format!("{:?}", (rng.range(-100000, 100000) as f64) / 64.0),
			},
			// 1: the classes named by C17 (integer syntax beyond 64 bits / exponent without fraction; long decimals)
			_ => match rng.below(4) {
				0 => rng.pick(&["1e5", "1E2", "18446744073709551616", "-9223372036854775809", "123456789012345678901234567890", "0e0", "-1e-2"]).to_string(),
				1 => numgen::canon_number(rng, false),
				2 => format!("{}.{}{}", rng.below(10), rng.next(), rng.next()),
				_ => format!("{}", rng.next()),
			},
		}),
		4 => Value::Array((0..rng.below(4)).map(|_| gen_value(rng, depth - 1, dups, numclass)).collect()),
		_ => {
			let pool = ["a", "b", "k", "", "\u{e9}", "x y", "$serde_json::private::NumberX", "$serde_json::private::Number"];
			let mut es: Vec<Entry> = vec![];
			for _ in 0..rng.below(5) {
				let key = if rng.chance(1, 4) { gen_string(rng) } else { rng.pick(&pool).to_string() };
				if dups || !es.iter().any(|e| e.key.as_str() == key) {
					es.push(Entry::new(key.as_str().into(), gen_value(rng, depth - 1, dups, numclass)));
				}
			}
			Value::Object(es.into_iter().collect())
		}
	}
}

fn gen_sj(rng: &mut Rng, depth: usize) -> serde_json::Value {
	use serde_json::Value as S;
	let k = if depth == 0 { rng.below(4) } else { rng.below(6) };
	match k {
		0 => rng.pick(&[S::Null, S::Bool(true), S::Bool(false)]).clone(),
		1 => S::String(gen_string(rng)),
		2 | 3 => match rng.below(5) {
			// numbers that reach serde_json through its text parser, in every spelling of the number grammar
			4 => {
				let sp = if rng.chance(1, 2) {
					rng.pick(&["1.50", "1E2", "-0", "-0.0", "0.0", "100000000000000000000", "0.1234567890123456789", "1e5", "1.0", "2.0", "10.0", "1e-7", "18446744073709551615", "18446744073709551616",
						"-9223372036854775808", "-9223372036854775809", "9007199254740993", "4.50e+3", "0.000001", "1E+21"]).to_string()
				} else {
					crate::gen::number_spelling(rng)
				};
				serde_json::from_str::<S>(&sp).unwrap_or(S::Null)
			}
			0 => S::Number(edge!(rng, [u64::MAX, 0, 1 << 63, (1 << 53) + 1], rng.next()).into()),
			1 => S::Number(edge!(rng, [i64::MIN, -1, i64::MIN + 1], -(rng.next() as i64).abs()).into()),
			_ => {
				let f = match rng.below(5) {
					// floats whose shortest spelling is an integer mantissa with an exponent (1e16, -4e18, 2e-7 ...) or an
					// integer followed by .0: a float stays a float
					4 => {
						let d = (1 + rng.below(9)) as f64;
						let x = d * 10f64.powi(rng.range(-8, 23) as i32);
						if rng.chance(1, 3) { -x } else { x }
					}
					0 => *rng.pick(&[-0.0, 0.0, 5e-324, f64::MAX, f64::MIN_POSITIVE, 1e300, 1e-300, 0.1, 1e21, 123456789012345680000.0, 3.7557363180253596e-134]),
					1 => f64::from_bits(1 + rng.next() % ((1u64 << 52) - 1)),
					_ => {
						let f = numgen::random_double(rng);
						if rng.chance(1, 2) { -f } else { f }
					}
				};
				serde_json::Number::from_f64(f).map(S::Number).unwrap_or(S::Null)
			}
		},
		4 => S::Array((0..rng.below(4)).map(|_| gen_sj(rng, depth - 1)).collect()),
		_ => S::Object((0..rng.below(4)).map(|_| (if rng.chance(1, 3) { gen_string(rng) } else { rng.pick(&["a", "b", "zz", ""]).to_string() }, gen_sj(rng, depth - 1))).collect()),
	}
}

pub fn record(args: &Args) {
	let n = args.num("n", 60);
	let which = args.get("events").unwrap_or("typed,value_ser,value_de,text_de,sj_rt,js_rt").to_string();
	let out = args.get("out").unwrap_or_else(|| tool_error("record-serde: --out required"));
	let mut rng = Rng::new(seed() ^ 0x5e4de);
	let mut lines: Vec<J> = vec![];
	let want = |w: &str| which.split(',').any(|x| x == w);
	for i in 0..n {
		if want("typed") {
			let ev = match i % 7 {
				0 => typed_event("Ints", &Ints { a: edge!(rng, [0, 255], 7), b: edge!(rng, [0, 65535], 300), c: edge!(rng, [0, u32::MAX], 70000), d: edge!(rng, [0, u64::MAX, 1 << 63], rng.next()),
					e: edge!(rng, [i8::MIN, i8::MAX], -5), f: edge!(rng, [i16::MIN, i16::MAX], -300), g: edge!(rng, [i32::MIN, i32::MAX], -70000), h: edge!(rng, [i64::MIN, i64::MAX], rng.next() as i64) }),
				1 => typed_event("Floats", &Floats { a: gen_f32(&mut rng), b: gen_f64(&mut rng), v: (0..rng.below(3)).map(|_| gen_f64(&mut rng)).collect(), o: if rng.chance(1, 2) { None } else { Some(gen_f32(&mut rng)) }, t: (gen_f32(&mut rng), gen_f64(&mut rng)) }),
				2 => typed_event("E", &gen_e(&mut rng, 2)),
				3 => typed_event("Vec<E>", &(0..rng.below(4)).map(|_| gen_e(&mut rng, 1)).collect::<Vec<E>>()),
				4 => {
					let mut m = Maps { s: BTreeMap::new(), i: BTreeMap::new(), u: BTreeMap::new(), i8s: BTreeMap::new(), c: BTreeMap::new(), k: BTreeMap::new(), n: BTreeMap::new() };
					for _ in 0..rng.below(3) {
						m.s.insert(gen_string(&mut rng), rng.next() as i32);
						m.i.insert(edge!(rng, [i64::MIN, i64::MAX, -1, 0], rng.next() as i64), rng.chance(1, 2));
						m.i.insert(gen_i64_by_len(&mut rng), rng.chance(1, 2));
						m.u.insert(gen_i64_by_len(&mut rng).unsigned_abs(), rng.below(256) as u8);
						m.u.insert(edge!(rng, [u64::MAX, 0, 1 << 63, i64::MAX as u64 + 1], rng.next()), rng.below(256) as u8);
						m.i8s.insert(edge!(rng, [i8::MIN, i8::MAX], rng.range(-128, 127) as i8), ());
						m.c.insert(gen_char(&mut rng), gen_string(&mut rng));
						m.k.insert(rng.pick(&[Kind::Alpha, Kind::Beta, Kind::Gamma]).clone(), rng.next() as u16);
						m.n.insert(NewKey(rng.next() as u32), (0..rng.below(3)).map(|_| rng.below(256) as u8).collect());
					}
					typed_event("Maps", &m)
				}
				5 => typed_event("Point", &gen_point(&mut rng, 2)),
				_ => {
					let mut m = BTreeMap::new();
					for _ in 0..rng.below(3) {
						m.insert(gen_string(&mut rng), (0..rng.below(3)).map(|_| gen_e(&mut rng, 1)).collect());
					}
					typed_event("Nested", &Nested { es: (0..rng.below(3)).map(|_| gen_e(&mut rng, 1)).collect(), t: (rng.below(256) as u8, (gen_string(&mut rng), rng.chance(1, 2))), p: gen_point(&mut rng, 1), u: (), us: UnitS,
						nt: NewT(edge!(rng, [i32::MIN, i32::MAX], rng.next() as i32)), ps: PairS(rng.below(256) as u8, gen_string(&mut rng)), ch: gen_char(&mut rng), m,
						oo: *rng.pick(&[None, Some(Some(0u8)), Some(Some(3u8))]), arr: [rng.next() as i16, i16::MIN, i16::MAX] })
				}
			};
			lines.push(ev);
		}
		if want("typed") && i % 9 == 3 {
			let ids = |rng: &mut Rng| Ids((0..rng.below(3)).map(|_| rng.below(256) as u8).collect());
			let nt = Newtypes {
				ids: ids(&mut rng),
				rows: Rows((0..rng.below(3)).map(|_| (0..rng.below(2)).map(|_| rng.below(256) as u8).collect()).collect()),
				p: Pair1((rng.below(256) as u8,)),
				o: OptN(rng.pick(&[None, Some(vec![]), Some(vec![-1i8]), Some(vec![1, 2])]).clone()),
				m: MapN((0..rng.below(3)).map(|_| (gen_i64_by_len(&mut rng), ids(&mut rng))).collect()),
				arr1: [ids(&mut rng)],
				e: (0..rng.below(2)).map(|_| gen_e(&mut rng, 1)).collect(),
			};
			lines.push(typed_event("Newtypes", &nt));
		}
		if want("typed") && i % 9 == 5 {
			fn gen_skips(rng: &mut Rng, depth: usize) -> Skips {
				Skips {
					a: rng.below(256) as u8,
					o: *rng.pick(&[None, None, Some(0u8), Some(9u8)]),
					v: rng.pick(&[vec![], vec![], vec![1u8], vec![0, 255]]).clone(),
					s: rng.pick(&["", "", "x", "\u{e9}\""]).to_string(),
					e: SkipE::S { x: *rng.pick(&[None, Some(true), Some(false)]), y: rng.below(256) as u8, z: rng.pick(&[vec![], vec![-1i8, 1]]).clone() },
					last: if depth > 0 && rng.chance(1, 2) { Some(Box::new(gen_skips(rng, depth - 1))) } else { None },
				}
			}
			lines.push(typed_event("Skips", &gen_skips(&mut rng, 2)));
		}
		if want("typed") && i == 2 {
			// SYSTEMATIC, not drawn: integer keys and values of every digit count (1..20), both signs, at 10^k - 1, 10^k and
			// 10^k + 1, and the bounds of every width - whatever buffer formats them has its boundary in here
			let mut m = Maps { s: BTreeMap::new(), i: BTreeMap::new(), u: BTreeMap::new(), i8s: BTreeMap::new(), c: BTreeMap::new(), k: BTreeMap::new(), n: BTreeMap::new() };
			let mut p: u64 = 1;
			for k in 0..20u32 {
				for d in [p.wrapping_sub(1), p, p.wrapping_add(1), p.saturating_mul(9), p.saturating_mul(5) + 7] {
					m.u.insert(d, (k % 256) as u8);
					if d <= i64::MAX as u64 {
						m.i.insert(d as i64, k % 2 == 0);
						m.i.insert(-(d as i64), k % 2 == 1);
					}
					if d <= u32::MAX as u64 {
						m.n.insert(NewKey(d as u32), vec![k as u8]);
					}
					if d <= i8::MAX as u64 {
						m.i8s.insert(d as i8, ());
						m.i8s.insert(-(d as i8), ());
					}
				}
				p = p.saturating_mul(10);
			}
			for b in [i64::MIN, i64::MAX, i32::MIN as i64, i32::MAX as i64, i16::MIN as i64, u32::MAX as i64, -(u32::MAX as i64)] {
				m.i.insert(b, true);
				m.i.insert(b.saturating_add(1), false);
				m.i.insert(b.saturating_sub(1), false);
			}
			for b in [u64::MAX, u64::MAX - 1, 1 << 63, (1 << 63) - 1, (1 << 63) + 1, u32::MAX as u64 + 1] {
				m.u.insert(b, 1);
			}
			m.i8s.insert(i8::MIN, ());
			lines.push(typed_event("Maps", &m));
			let ints: Vec<i64> = m.i.keys().cloned().collect();
			lines.push(typed_event("Vec<i64>", &ints));
			let uints: Vec<u64> = m.u.keys().cloned().collect();
			lines.push(typed_event("Vec<u64>", &uints));
		}
		if want("typed") && i == 1 {
			let big = Big {
				v: (0..300).map(|j| (j * 219 % 65536) as u16).collect(),
				m: (0..300).map(|j| (format!("key-number-{j:05}-{}", gen_string(&mut rng)), (j % 256) as u8)).collect(),
				s: (0..1000).map(|j| if j % 37 == 0 { '\u{1f600}' } else if j % 11 == 0 { '\u{e9}' } else { (b'a' + (j % 26) as u8) as char }).collect(),
				ids: (0..70).map(|j| (u64::MAX - j * 1_000_003, format!("{j}"))).collect(),
				t: (0..260).map(|j| ((j % 256) as u8, [None, Some(true), Some(false)][j % 3])).collect(),
				e: (0..40).map(|_| gen_e(&mut rng, 1)).collect(),
			};
			lines.push(typed_event("Big", &big));
		}
		let numclass = if i % 3 == 2 { 1 } else { 0 };
		if want("value_ser") {
			let mut vs = vec![gen_value(&mut rng, 1 + i % 3, i % 2 == 1, numclass)];
			if i == 0 {
				// fixed witnesses of the known findings K1 and K4, so that every run reports them
				vs.push(Value::Array(vec![num("1e5")]));
				vs.push(Value::Object(vec![Entry::new("$serde_json::private::Number".into(), Value::String("12".into()))].into_iter().collect()));
				// zero with a fraction keeps its spelling (only the sign may go)
				vs.push(Value::Array(vec![num("0.0"), num("-0.0"), num("0.00"), num("0.0e5"), num("-0")]));
			}
			for v in vs {
				let mut outc = crate::serdev::ser_outcome(guarded(|| json_syntax::to_value(&v)));
				// the object's own Serialize impl, entered directly and through references / Box, gives the same outcome
				if let Value::Object(o) = &v {
					for (how, other) in [("Object", crate::serdev::ser_outcome(guarded(|| json_syntax::to_value(o)))), ("&&Object", crate::serdev::ser_outcome(guarded(|| json_syntax::to_value(&&o)))),
						("Box<Value>", crate::serdev::ser_outcome(guarded(|| json_syntax::to_value(Box::new(v.clone())))))] {
						if other != outc {
							outc = json!({"route_differs": how, "observed": other});
							break;
						}
					}
				}
				lines.push(json!({"ev": "value_ser", "v": project(&v), "out": outc}));
			}
		}
		if want("value_de") || want("text_de") {
			let v = if i == 0 {
				// fixed witness of the known finding K2 (more than 19 significant digits)
				Value::Array(vec![num("0.1258935271334213390012329105723384856175"), num("-6.94457046877395123285481304264976643025875091552734375e-1")])
			} else if i == 1 {
				// SYSTEMATIC, not drawn: integers around the bounds of the integer types the visitors are called with
				// (visit_i64 / visit_u64), incl. unsigned ones above i64::MAX that are not exactly doubles
				Value::Array(["9223372036854775807", "9223372036854775808", "9223372036854775809", "18446744073709551615", "18446744073709551614", "-9223372036854775808",
					"-9223372036854775807", "4294967295", "4294967296", "-2147483649", "9007199254740993", "-9007199254740993", "1000000000000000", "-1000000000000000",
					"9999999999999999", "-9999999999999999", "0", "-1"].iter().map(|s| num(s)).collect())
			} else if i == 3 {
				// SYSTEMATIC: whole numbers spelled as floats around 2^63 / 2^64 / 10^19 (visit_f64 territory), both signs
				Value::Array(["9.5e18", "9.3e18", "9223372036854775808.0", "9223372036854775807.0", "9.223372036854775807e18", "1e19", "1.0e19", "9.999999999999998e18", "-9.5e18",
					"-9223372036854775809.0", "1.8446744073709552e19", "18446744073709551616.0", "1e18", "1.5e18", "9.007199254740993e15", "4.5e15", "2e63", "123456789012345678.0"]
					.iter().map(|s| num(s)).collect())
			} else if i == 2 {
				Value::Object(["18446744073709551615", "9223372036854775809", "-9223372036854775808"].iter().enumerate().map(|(j, s)| Entry::new(format!("k{j}").as_str().into(), num(s))).collect())
			} else {
				gen_value(&mut rng, 1 + i % 3, i % 4 == 1, numclass)
			};
			let mut sps = vec![];
			numbers_of(&v, &mut sps);
			let certs: Vec<J> = sps.iter().filter_map(|s| cert64(s)).collect();
			if certs.len() == sps.len() {
				// duplicates collapse through the map visitor: the expected structure is the Insert-fold of v
				if want("value_de") {
					disturb_de();
					let mut back = match guarded(|| json_syntax::from_value::<Value>(v.clone())) {
						Ok(Ok(b)) => project(&b),
						Ok(Err(e)) => json!({"error": e.to_string()}),
						Err(p) => json!({"panic": p}),
					};
					// the same deserialization INTO an existing value (Deserialize::deserialize_in_place): what the place held
					// before (a shorter array, a longer one, an object, a scalar) must not matter
					for place0 in [Value::Array(vec![Value::Null]), Value::Array(vec![Value::Null; 9]), Value::Object(vec![Entry::new("old".into(), Value::Null)].into_iter().collect()), Value::Boolean(true)] {
						let mut place = place0.clone();
						let r = guarded(|| <Value as serde::Deserialize>::deserialize_in_place(v.clone(), &mut place));
						let got = match r {
							Ok(Ok(())) => project(&place),
							Ok(Err(e)) => json!({"error": e.to_string()}),
							Err(p) => json!({"panic": p}),
						};
						if got != back {
							back = json!({"in_place_differs": got, "place": project(&place0)});
							break;
						}
					}
					// side doors to the same deserialization: Value / Object as IntoDeserializer, Object's own Deserialize impl
					// (for objects), Box<Value> as the target
					if back.get("in_place_differs").is_none() {
						use serde::de::IntoDeserializer;
						use serde::Deserialize;
						let show = |r: Result<Result<Value, json_syntax::DeserializeError>, String>| match r {
							Ok(Ok(b)) => project(&b),
							Ok(Err(e)) => json!({"error": e.to_string()}),
							Err(p) => json!({"panic": p}),
						};
						let mut routes = vec![
							("Value::deserialize(value.into_deserializer())", show(guarded(|| Value::deserialize(v.clone().into_deserializer())))),
							("from_value::<Box<Value>>", show(guarded(|| json_syntax::from_value::<Box<Value>>(v.clone()).map(|b| *b)))),
						];
						if let Value::Object(o) = &v {
							routes.push(("from_value::<Object>", show(guarded(|| json_syntax::from_value::<json_syntax::Object>(v.clone()).map(Value::Object)))));
							routes.push(("Value::deserialize(object.into_deserializer())", show(guarded(|| Value::deserialize(o.clone().into_deserializer())))));
							routes.push(("Object::deserialize(object.into_deserializer())", show(guarded(|| json_syntax::Object::deserialize(o.clone().into_deserializer()).map(Value::Object)))));
						}
						for (how, got) in routes {
							// (an error message may name the expected type differently; only its presence is compared)
							if got != back && !(got.get("error").is_some() && back.get("error").is_some()) {
								back = json!({"route_differs": how, "observed": got});
								break;
							}
						}
					}
					lines.push(json!({"ev": "value_de", "v": project(&v), "expect": project(&collapse(&v)), "back": back, "certs": certs}));
				}
				if want("text_de") {
					disturb_de();
					let text = json_syntax::Print::compact_print(&v).to_string();
					let back = match guarded(|| serde_json::from_str::<Value>(&text)) {
						Ok(Ok(b)) => project(&b),
						Ok(Err(e)) => json!({"error": e.to_string()}),
						Err(p) => json!({"panic": p}),
					};
					// the doubles serde_json's own parser presents for these spellings
					let presented: Vec<J> = sps.iter().filter_map(|s| {
						let f: f64 = serde_json::from_str(s).ok()?;
						let (m, e) = numgen::parts(f);
						Some(json!({"sp": str_to_cps(s), "m": m.to_string().bytes().map(|b| (b - b'0') as u64).collect::<Vec<_>>(), "e": e}))
					}).collect();
					let mut back = back;
					if let (Value::Object(_), None) = (&v, back.get("error")) {
						let direct = match guarded(|| serde_json::from_str::<json_syntax::Object>(&text)) {
							Ok(Ok(b)) => project(&Value::Object(b)),
							Ok(Err(e)) => json!({"error": e.to_string()}),
							Err(p) => json!({"panic": p}),
						};
						if direct != back {
							back = json!({"route_differs": "serde_json::from_str::<Object>", "observed": direct});
						}
					}
					lines.push(json!({"ev": "text_de", "v": project(&v), "expect": project(&collapse_last(&v)), "back": back, "certs": presented}));
				}
			}
		}
		if want("sj_rt") {
			let sj = if i == 0 {
				// SYSTEMATIC: serde_json floats d x 10^n, d = 1..9, n = -25..=25, both signs (they print as integers with an exponent)
				serde_json::Value::Array((-25..=25).flat_map(|n: i32| (1..=9).map(move |d| format!("{d}e{n}").parse::<f64>().unwrap())).flat_map(|f| [f, -f]).map(|f| serde_json::json!(f)).collect())
			} else {
				gen_sj(&mut rng, 1 + i % 3)
			};
			let r = guarded(|| {
				// alternately through the named conversions and through the From impls
				let js = if i % 2 == 0 { Value::from_serde_json(sj.clone()) } else { Value::from(sj.clone()) };
				let back = if i % 4 < 2 { js.clone().into_serde_json() } else { serde_json::Value::from(js.clone()) };
				(project(&js), back == sj, project_sj(&back))
			});
			lines.push(match r {
				Ok((js, equal, back)) => json!({"ev": "sj_rt", "sj": project_sj(&sj), "js": js, "equal": equal, "back": back, "panic": false}),
				Err(p) => json!({"ev": "sj_rt", "sj": project_sj(&sj), "equal": false, "panic": true, "msg": p}),
			});
		}
		if want("js_rt") {
			// the stated domain: no duplicate keys, numbers are 64-bit integers or finite doubles;
			// plus (no-panic clause) any magnitude
			let v = if i == 3 || i == 4 {
				// SYSTEMATIC: m x 10^e for every e in -30..=30 and mantissas whose product is not exact in binary (fast paths of
				// decimal-to-double conversion have their table bounds in here), plain and with a fraction
				let es: Vec<i32> = if i == 3 { (0..=30).collect() } else { (-30..0).collect() };
				Value::Array(es.iter().flat_map(|e| ["3", "6", "7", "9", "1.1", "6.02", "9007199254740991", "4503599627370497", "1"].iter().map(move |m| num(&format!("{m}e{e}")))).collect())
			} else if i == 2 {
				// finite doubles spelled with more than a thousand digits after the point (every digit may decide the rounding)
				Value::Array(vec![num(&format!("0.{}1e1101", "0".repeat(1100))), num(&format!("9007199254740993.{}1", "0".repeat(1100))), num(&format!("-1.{}9", "9".repeat(1150))),
					num(&crate::numgen::plain(&crate::numgen::midpoint_above(1, -1074)))])
			} else if i % 5 == 4 { Value::Array(vec![num(*rng.pick(&["1e400", "-1e999", "1e-400", "123456789012345678901234567890", "0.1e-999"]))]) } else { gen_value(&mut rng, 1 + i % 3, false, 0) };
			let mut sps = vec![];
			numbers_of(&v, &mut sps);
			let in_domain = sps.iter().all(|s| cert64(s).is_some());
			let certs: Vec<J> = sps.iter().filter_map(|s| cert64(s)).collect();
			let r = guarded(|| {
				let sj = if i % 2 == 0 { v.clone().into_serde_json() } else { serde_json::Value::from(v.clone()) };
				project(&if i % 4 < 2 { Value::from_serde_json(sj) } else { Value::from(sj) })
			});
			match r {
				Ok(back) => {
					if in_domain {
						lines.push(json!({"ev": "js_rt", "v": project(&v), "back": back, "certs": certs, "panic": false}))
					}
				}
				Err(p) => lines.push(json!({"ev": "js_rt", "v": project(&v), "back": {"t": "null"}, "certs": certs, "panic": true, "msg": p})),
			}
		}
	}
	use std::io::Write;
	let mut f = std::fs::File::create(out).unwrap_or_else(|e| tool_error(&format!("create {out}: {e}")));
	for l in &lines {
		writeln!(f, "{}", l).unwrap();
	}
	println!("SUMMARY {}", json!({"events": lines.len(), "samples": lines.iter().take(2).map(|l| json!({"ev": l["ev"], "type": l.get("type"), "debug": l.get("debug")})).collect::<Vec<_>>()}));
}

/// duplicate keys collapse to the first position holding the last value (Object::insert)
fn collapse(v: &Value) -> Value {
	match v {
		Value::Array(a) => Value::Array(a.iter().map(collapse).collect()),
		Value::Object(o) => {
			let mut es: Vec<Entry> = vec![];
			for e in o.iter() {
				let c = collapse(&e.value);
				match es.iter_mut().find(|x| x.key == e.key) {
					Some(x) => x.value = c,
					None => es.push(Entry::new(e.key.clone(), c)),
				}
			}
			Value::Object(es.into_iter().collect())
		}
		other => other.clone(),
	}
}
fn collapse_last(v: &Value) -> Value {
	collapse(v)
}
