//! Parser conformance: replay of spec-generated vectors (spec -> impl) and
//! recording of traces of real parses (impl -> spec).
use crate::proj::project;
use crate::util::*;
use decoded_char::DecodedChar;
use json_syntax::parse::{Error, Options};
use json_syntax::{CodeMap, Parse, Value};
use serde_json::{json, Value as J};
use std::convert::Infallible;

pub fn options(o: &J) -> Options {
	Options {
		accept_truncated_surrogate_pair: o[0].as_bool().unwrap_or(false),
		accept_invalid_codepoints: o[1].as_bool().unwrap_or(false),
	}
}

pub fn is_strict(o: &Options) -> bool {
	!o.accept_truncated_surrogate_pair && !o.accept_invalid_codepoints
}

pub fn project_cm(cm: &CodeMap) -> J {
	J::Array(cm.iter().map(|(_, e)| json!([e.span.start(), e.span.end(), e.volume])).collect())
}

pub fn project_err<E>(e: &Error<E>) -> J {
	let mut j = project_err_variant(e);
	// the same information through the public accessors
	j["acc"] = json!([e.position(), e.span().start(), e.span().end()]);
	j
}

fn project_err_variant<E>(e: &Error<E>) -> J {
	match e {
		Error::Stream(p, _) => json!({"kind": "stream", "pos": p}),
		Error::Unexpected(p, c) => json!({"kind": "unexpected", "pos": p, "ch": c.map(|c| c as i64).unwrap_or(-1)}),
		Error::InvalidUnicodeCodePoint(s, c) => json!({"kind": "surrogate", "variant": "invalid_cp", "units": [c], "span": [s.start(), s.end()]}),
		Error::MissingLowSurrogate(s, h) => json!({"kind": "surrogate", "variant": "missing_low", "units": [h], "span": [s.start(), s.end()]}),
		Error::InvalidLowSurrogate(s, h, c) => json!({"kind": "surrogate", "variant": "invalid_low", "units": [h, c], "span": [s.start(), s.end()]}),
		Error::InvalidUtf8(p) => json!({"kind": "utf8", "pos": p}),
	}
}

/// the same projected result with every byte offset (code-map spans, error positions and spans) translated by `map`
pub fn remap_offsets(r: &J, map: &dyn Fn(u64) -> u64) -> J {
	let mut out = r.clone();
	let m = |x: &J| json!(x.as_u64().map(map).unwrap_or(u64::MAX));
	if let Some(cm) = out.get_mut("cm").and_then(|c| c.as_array_mut()) {
		for e in cm.iter_mut() {
			let (a, b) = (m(&e[0]), m(&e[1]));
			e[0] = a;
			e[1] = b;
		}
	}
	if let Some(err) = out.get_mut("err") {
		if err.get("pos").is_some() {
			let p = m(&err["pos"]);
			err["pos"] = p;
		}
		if err.get("span").is_some() {
			let (a, b) = (m(&err["span"][0]), m(&err["span"][1]));
			err["span"] = json!([a, b]);
		}
		if err.get("region").is_some() {
			let (a, b) = (m(&err["region"][0]), m(&err["region"][1]));
			err["region"] = json!([a, b]);
		}
	}
	out
}

pub fn project_result<E>(r: Result<Result<(Value, CodeMap), Error<E>>, String>) -> J {
	match r {
		Err(p) => json!({"panic": p}),
		Ok(Ok((v, cm))) => json!({"ok": true, "v": project(&v), "cm": project_cm(&cm)}),
		Ok(Err(e)) => json!({"ok": false, "err": project_err(&e)}),
	}
}

/// An input iterator that counts the characters pulled from it (`pulls`) and
/// notices polls after it has returned `None` (informational only: the end
/// marker is not an input character, C03 does not forbid asking again).
pub struct Counting<'a> {
	pub items: &'a [DecodedChar],
	pub i: usize,
	pub pulls: usize,
	pub ended: bool,
	pub polled_after_end: bool,
}

impl<'a> Counting<'a> {
	pub fn new(items: &'a [DecodedChar]) -> Self {
		Counting { items, i: 0, pulls: 0, ended: false, polled_after_end: false }
	}
}

impl<'a, 'b> Iterator for &'b mut Counting<'a> {
	type Item = Result<DecodedChar, Infallible>;
	fn next(&mut self) -> Option<Self::Item> {
		if self.ended {
			self.polled_after_end = true;
		}
		if self.i < self.items.len() {
			self.pulls += 1;
		}
		crate::hooks::emit_pull(self.items.get(self.i).copied());
		match self.items.get(self.i) {
			Some(c) => {
				self.i += 1;
				Some(Ok(*c))
			}
			None => {
				self.ended = true;
				None
			}
		}
	}
}

/// an iterator whose next() itself parses a document on the same thread before handing out its character (a lazily
/// assembled input): parsing must be re-entrant
struct Reentrant<'a>(std::str::Chars<'a>);
impl<'a> Iterator for Reentrant<'a> {
	type Item = Result<char, Infallible>;
	fn next(&mut self) -> Option<Self::Item> {
		let inner = Value::parse_str("{\"k\":[1,\"s\\u00e9\",null]}");
		assert!(inner.is_ok());
		let _ = Value::parse_str("[\"abc\\u12");
		self.0.next().map(Ok)
	}
}

thread_local! {
	/// the code map of the previous successful parse on this thread (for clone_from)
	static LAST_CM: std::cell::RefCell<Option<CodeMap>> = std::cell::RefCell::new(None);
}

/// CodeMap as a container: clone, clone_from over a map of another length, iteration by reference / by value, slice views
fn code_map_routes(cm: &CodeMap) -> Option<String> {
	let exp = project_cm(cm);
	let t = |e: &json_syntax::code_map::Entry| json!([e.span.start(), e.span.end(), e.volume]);
	let c = cm.clone();
	if project_cm(&c) != exp {
		return Some("clone".into());
	}
	let mut prev = LAST_CM.with(|l| l.borrow_mut().take()).unwrap_or_else(|| cm.clone());
	prev.clone_from(cm);
	let after = project_cm(&prev);
	LAST_CM.with(|l| *l.borrow_mut() = Some(c));
	if after != exp {
		return Some("clone_from over the previous code map".into());
	}
	if J::Array(cm.as_slice().iter().map(t).collect()) != exp || J::Array(cm.iter().map(|(_, e)| t(e)).collect()) != exp {
		return Some("as_slice / iter".into());
	}
	if J::Array((&*cm).into_iter().map(|(_, e)| t(e)).collect()) != exp || J::Array(cm.clone().into_iter().map(|(_, e)| t(&e)).collect()) != exp {
		return Some("into_iter".into());
	}
	if cm.iter().map(|(i, _)| i).collect::<Vec<_>>() != (0..cm.len()).collect::<Vec<_>>() {
		return Some("iter indices".into());
	}
	let sl: &[json_syntax::code_map::Entry] = cm.as_ref();
	if sl.len() != cm.len() {
		return Some("as_ref".into());
	}
	iter_routes(&|| cm.iter(), &|(i, e)| json!([i, t(e)]))
}

/// Failed parses of every kind (malformed escape, unterminated string, stream error in the middle of a string, ill-formed
/// UTF-8 in the middle of a string / key / number, syntax errors at depth).  Called on the current thread before other
/// calls: nothing a failed parse leaves behind may influence a later one.
pub fn disturb() {
	thread_local! { static TURN: std::cell::Cell<usize> = std::cell::Cell::new(0); }
	let turn = TURN.with(|t| { t.set(t.get() + 1); t.get() });
	// ONE failed parse per call, in rotation: a later failure could wipe what an earlier one left behind
	let _ = guarded(|| match turn % 9 {
		0 => drop(Value::parse_str("{\"stale-key-\\u00e9\":[1,\"stale string \\u12")),
		1 => drop(Value::parse_str("[\"left over\\uD800")),
		2 => drop(Value::parse_str_with("[\"left over\\uD83D", Options::flexible())),
		3 => drop(Value::parse_slice(b"{\"k\":\"abc\xff")),
		4 => drop(Value::parse_slice(b"[12345\xc0")),
		5 => drop(Value::parse_utf8("[\"abcdefghijklmnopqrstuvwxyz".chars().map(Ok::<char, ()>).chain(std::iter::once(Err(()))))),
		6 => drop(Value::parse_utf8("{\"key".chars().map(Ok::<char, ()>).chain(std::iter::once(Err(()))))),
		7 => drop(Value::parse_str("[[[{\"a\":[1,2,{\"b\":tru")),
		_ => drop(Value::parse_str("{\"abc\\uZ")),
	});
}

/// All entry points on a `str` input under options `o`.
pub fn run_all_str(s: &str, o: Options) -> Vec<(&'static str, J)> {
	let mut out = vec![];
	out.push(("parse_str_with", project_result(guarded(|| Value::parse_str_with(s, o)))));
	out.push(("parse_utf8_with (re-entrant iterator)", project_result(guarded(|| Value::parse_utf8_with(Reentrant(s.chars()), o)))));
	out.push(("parse_slice_with", project_result(guarded(|| Value::parse_slice_with(s.as_bytes(), o)))));
	out.push(("parse_utf8_with", project_result(guarded(|| Value::parse_utf8_with(s.chars().map(Ok::<char, Infallible>), o)))));
	out.push(("parse_utf8_infallible_with", project_result(guarded(|| Value::parse_utf8_infallible_with(s.chars(), o)))));
	out.push(("parse_with", project_result(guarded(|| Value::parse_with(s.chars().map(|c| Ok::<_, Infallible>(DecodedChar::from_utf8(c))), o)))));
	out.push(("parse_infallible_with", project_result(guarded(|| Value::parse_infallible_with(s.chars().map(DecodedChar::from_utf8), o)))));
	// the option constructors are routes too: which of them this record is, is decided by the record (the specification's
	// Strict / AllOpts), never by comparing with what the constructors return
	if o.accept_truncated_surrogate_pair && o.accept_invalid_codepoints {
		out.push(("parse_str_with(Options::flexible())", project_result(guarded(|| Value::parse_str_with(s, Options::flexible())))));
	}
	if is_strict(&o) {
		out.push(("parse_str_with(Options::strict())", project_result(guarded(|| Value::parse_str_with(s, Options::strict())))));
		out.push(("parse_slice_with(Options::default())", project_result(guarded(|| Value::parse_slice_with(s.as_bytes(), Options::default())))));
		out.push(("parse_str", project_result(guarded(|| Value::parse_str(s)))));
		out.push(("parse_slice", project_result(guarded(|| Value::parse_slice(s.as_bytes())))));
		out.push(("parse_utf8", project_result(guarded(|| Value::parse_utf8(s.chars().map(Ok::<char, Infallible>))))));
		out.push(("parse_infallible_utf8", project_result(guarded(|| Value::parse_infallible_utf8(s.chars())))));
		out.push(("parse", project_result(guarded(|| Value::parse(s.chars().map(|c| Ok::<_, Infallible>(DecodedChar::from_utf8(c))))))));
		out.push(("parse_infallible", project_result(guarded(|| Value::parse_infallible(s.chars().map(DecodedChar::from_utf8))))));
		let fs = guarded(|| s.parse::<Value>());
		// FromStr returns no code map: compare verdict, value and error only.
		out.push((
			"from_str",
			match fs {
				Err(p) => json!({"panic": p}),
				Ok(Ok(v)) => json!({"ok": true, "v": project(&v)}),
				Ok(Err(e)) => json!({"ok": false, "err": project_err(&e)}),
			},
		));
	}
	out
}

fn surrogate_err_matches(exp: &J, got: &J) -> Result<(), String> {
	// property C07: the error carries the offending code units and a span lying
	// inside the offending escape sequence(s)
	let region = &exp["region"];
	let (lo, hi) = (region[0].as_u64().unwrap_or(0), region[1].as_u64().unwrap_or(0));
	let span = &got["span"];
	let (a, b) = (span[0].as_u64().unwrap_or(u64::MAX), span[1].as_u64().unwrap_or(u64::MAX));
	// JsonParser!SpanInside: within the region, and starting at a position OF the region (an empty span at the very end of
	// the escape points at whatever follows it, which is not offending)
	if !(lo <= a && a <= b && b <= hi && a < hi) {
		return Err(format!("span [{a},{b}) not inside the offending escape(s) [{lo},{hi})"));
	}
	if exp["variant"] == got["variant"] {
		if exp["units"] != got["units"] {
			return Err(format!("code units {} differ from the offending units {}", got["units"], exp["units"]));
		}
	} else {
		// another variant: every carried unit must be one of the offending units
		let eu = exp["units"].as_array().cloned().unwrap_or_default();
		for u in got["units"].as_array().cloned().unwrap_or_default() {
			if !eu.contains(&u) {
				return Err(format!("carried unit {u} is not one of the offending units {}", exp["units"]));
			}
		}
	}
	Ok(())
}

/// Compare one observed outcome with the specification's.  `lenient`: the
/// options are not strict (error details are then outside C07).
pub fn compare_outcome(rep: &mut Report, ctx: &J, entry: &str, exp: &J, got: &J, strict: bool) {
	let vprop = if strict { "C01" } else { "C12" };
	let detail = |what: &str| json!({"what": what, "entry": entry, "input": ctx, "expected": exp, "observed": got});
	if got.get("panic").is_some() {
		rep.mismatch("C03.panic", detail("parser panicked"));
		return;
	}
	// Error::position() / Error::span() say what the variant carries (C07 observes errors through them as well)
	if let Some(acc) = got.get("err").and_then(|e| e.get("acc")) {
		let ge = &got["err"];
		let want = if ge.get("span").is_some() { json!([ge["span"][0], ge["span"][0], ge["span"][1]]) } else { json!([ge["pos"], ge["pos"], ge["pos"]]) };
		if *acc != want {
			rep.mismatch("C07.error", detail("Error::position() / Error::span() disagree with the offsets carried by the error"));
		}
	}
	let eok = exp["ok"].as_bool().unwrap_or(false);
	let gok = got["ok"].as_bool().unwrap_or(false);
	if eok != gok {
		rep.mismatch(&format!("{vprop}.verdict"), detail(if eok { "valid document rejected" } else { "invalid document accepted" }));
		return;
	}
	if eok {
		if exp["v"] != got["v"] {
			rep.mismatch(if strict { "C02.value" } else { "C12.value" }, detail("parsed value differs from the document's content"));
			if !strict {
				// the content of a document accepted under lenient options is just as determined (C12 fixes the meaning of the
				// relaxed escapes): a wrong value is a matter of C02 as well
				rep.mismatch("C02.value_lenient", detail("parsed value differs from the document's content (lenient options)"));
			}
		}
		if let Some(gcm) = got.get("cm") {
			if &exp["cm"] != gcm {
				rep.mismatch(if strict { "C05.codemap" } else { "C12.codemap" }, detail("code map differs"));
				if !strict {
					// C05 speaks about every successful parse, whatever the options
					rep.mismatch("C05.codemap", detail("code map differs (lenient options)"));
				}
			}
		}
	} else if strict {
		let (ee, ge) = (&exp["err"], &got["err"]);
		let ek = ee["kind"].as_str().unwrap_or("");
		let gk = ge["kind"].as_str().unwrap_or("");
		if ek != gk {
			rep.mismatch("C07.error", detail("error class differs"));
		} else if ek == "unexpected" {
			if ee["pos"] != ge["pos"] || ee["ch"] != ge["ch"] {
				rep.mismatch("C07.error", detail("unexpected-character error does not point at the first offending character"));
			}
		} else if ek == "utf8" {
			if ee["pos"] != ge["pos"] {
				rep.mismatch("C07.error", detail("invalid UTF-8 not reported at the first ill-formed sequence"));
			}
		} else if ek == "surrogate" {
			if let Err(why) = surrogate_err_matches(ee, ge) {
				rep.mismatch("C07.error", detail(&why));
			}
		}
	} else {
		// Lenient options relax surrogate escapes and nothing else: whether the document is rejected BECAUSE OF a surrogate
		// escape is part of what the options decide (an escape the option relaxes must not be reported; one it does not
		// relax must still be).  Offsets and characters of errors under lenient options are not compared.
		let es = exp["err"]["kind"].as_str() == Some("surrogate");
		let gs = got["err"]["kind"].as_str() == Some("surrogate");
		if es != gs {
			rep.mismatch("C12.error", detail(if gs { "a surrogate escape that the enabled option relaxes is reported as an error" } else { "the document is rejected for another reason than the surrogate escape the options leave strict" }));
		}
	}
}

/// Key lookups on every object inside a parsed value must be linear scans (C02).
fn check_lookups(rep: &mut Report, ctx: &J, v: &Value) {
	let mut stack = vec![v];
	while let Some(v) = stack.pop() {
		match v {
			Value::Array(a) => stack.extend(a.iter()),
			Value::Object(o) => {
				let mut keys: Vec<&str> = o.iter().map(|e| e.key.as_str()).collect();
				keys.sort();
				keys.dedup();
				keys.push("\u{1}absent");
				for k in keys {
					let scan: Vec<usize> = o.iter().enumerate().filter(|(_, e)| e.key.as_str() == k).map(|(i, _)| i).collect();
					let idx: Vec<usize> = o.indexes_of(k).collect();
					let vals_ok = o.get(k).map(project).collect::<Vec<_>>() == scan.iter().map(|&i| project(&o.entries()[i].value)).collect::<Vec<_>>();
					let ents: Vec<usize> = o.get_entries_with_index(k).map(|(i, _)| i).collect();
					let route = iter_routes(&|| o.indexes_of(k), &|i| json!(i))
						.or_else(|| iter_routes(&|| o.get(k), &|v| project(v)))
						.or_else(|| iter_routes(&|| o.get_entries_with_index(k), &|(i, _)| json!(i)));
					if let Some(route) = route {
						rep.mismatch("C02.lookup", json!({"what": "key lookup on a parsed object: consuming the lookup iterator this way does not give the entries next() gives", "input": ctx, "key": k, "route": route}));
					}
					if idx != scan || !vals_ok || ents != scan || o.contains_key(k) != !scan.is_empty() || o.index_of(k) != scan.first().copied() {
						rep.mismatch("C02.lookup", json!({"what": "key lookup on a parsed object differs from a scan of its entries", "input": ctx, "key": k, "scan": scan, "indexes_of": idx}));
					}
				}
				stack.extend(o.iter().map(|e| &e.value));
			}
			_ => (),
		}
	}
}


/// The typed entry points (`bool`, `()`, `NumberBuf`, `String` :: parse_str_with) against JsonParser!TokenRun.
/// Beyond the listed properties: deviations are reported under the extension aspect `X01.token`.
fn check_typed_tokens(rep: &mut Report, ctx: &J, s: &str, o: Options, tok: &J) {
	use json_syntax::NumberBuf;
	let strict = is_strict(&o);
	let kind = tok["kind"].as_str().unwrap_or("none");
	let first = s.chars().next();
	let start_err = json!({"ok": false, "err": {"kind": "unexpected", "pos": 0, "ch": first.map(|c| c as i64).unwrap_or(-1)}});
	fn pr<T, E>(r: Result<Result<(T, CodeMap), Error<E>>, String>, f: impl Fn(&T) -> J) -> J {
		match r {
			Err(p) => json!({"panic": p}),
			Ok(Ok((v, cm))) => json!({"ok": true, "v": f(&v), "cm": project_cm(&cm)}),
			Ok(Err(e)) => json!({"ok": false, "err": project_err(&e)}),
		}
	}
	let results: Vec<(&str, J)> = vec![
		("bool", pr(guarded(|| bool::parse_str_with(s, o)), |b| json!({"t": "bool", "b": b}))),
		("null", pr(guarded(|| <()>::parse_str_with(s, o)), |_| json!({"t": "null"}))),
		("num", pr(guarded(|| NumberBuf::parse_str_with(s, o)), |n| json!({"t": "num", "num": crate::proj::cps(n.as_str())}))),
		("str", pr(guarded(|| json_syntax::String::parse_str_with(s, o)), |x| json!({"t": "str", "str": crate::proj::cps(x.as_str())}))),
	];
	for (k, got) in results {
		rep.count("token_calls");
		let exp = if k == kind { &tok["out"] } else { &start_err };
		let mut bad: Option<String> = None;
		if got.get("panic").is_some() {
			bad = Some("typed entry point panicked".into());
		} else if exp["ok"] != got["ok"] {
			bad = Some("verdict differs".into());
		} else if exp["ok"].as_bool() == Some(true) {
			if exp["v"] != got["v"] || exp["cm"] != got["cm"] {
				bad = Some("value or code map differs".into());
			}
		} else if strict {
			let (ee, ge) = (&exp["err"], &got["err"]);
			if ee["kind"] != ge["kind"] {
				bad = Some("error class differs".into());
			} else if ee["kind"] == "unexpected" && (ee["pos"] != ge["pos"] || ee["ch"] != ge["ch"]) {
				bad = Some("unexpected-character error does not point at the first offending character".into());
			} else if ee["kind"] == "surrogate" {
				if let Err(why) = surrogate_err_matches(ee, ge) {
					bad = Some(why);
				}
			}
		}
		if let Some(what) = bad {
			rep.mismatch("X01.token", json!({"what": what, "entry": format!("{k}::parse_str_with"), "input": ctx, "expected": exp, "observed": got}));
		}
	}
}

/// Replay one `parse` vector.
pub fn replay_parse(rep: &mut Report, rec: &J) {
	rep.count("parse_vectors");
	let w = &rec["w"];
	let s = match cps_to_string(w) {
		Some(s) => s,
		None => tool_error("parse vector with a non-scalar character"),
	};
	let o = options(&rec["o"]);
	let strict = is_strict(&o);
	let exp = &rec["out"];
	let ctx = json!({"w": w, "text": show(&s), "o": rec["o"], "vector": rec});
	if rep.counters["parse_vectors"] % 5 == 0 {
		disturb();
	}
	let results = run_all_str(&s, o);
	rep.add("parse_calls", results.len() as u64);
	// all entry points give the same result (C01)
	let first = results[0].1.clone();
	for (name, got) in &results {
		compare_outcome(rep, &ctx, name, exp, got, strict);
		let same = if *name == "from_str" {
			got["ok"] == first["ok"] && got.get("v") == first.get("v") && got.get("err") == first.get("err")
		} else {
			*got == first
		};
		if !same {
			rep.mismatch("C01.entrypoints", json!({"what": "entry points disagree", "input": ctx, "entry": name, "observed": got, "parse_str_with": first}));
		}
	}
	// Other transports: the parser counts positions in whatever unit the decoder reports for each character
	// (DecodedChar::len).  With UTF-16 lengths (2 / 4 bytes), one unit per character and four bytes per character the
	// outcome must be the same with every offset translated: spans are the source text of the fragment in the
	// coordinates of the source (C05), errors point at the same character (C07).
	if first.get("panic").is_none() && rep.counters["parse_vectors"] % 3 == 0 {
		let transports: [(&str, fn(char) -> usize); 3] = [("utf16", |c| c.len_utf16() * 2), ("chars", |_| 1), ("utf32", |_| 4)];
		for (tname, len_of) in transports {
			let mut table: Vec<(u64, u64)> = Vec::with_capacity(s.len() + 1);
			let (mut a, mut b) = (0u64, 0u64);
			for c in s.chars() {
				table.push((a, b));
				a += c.len_utf8() as u64;
				b += len_of(c) as u64;
			}
			table.push((a, b));
			let map = |p: u64| table.binary_search_by_key(&p, |x| x.0).map(|i| table[i].1).unwrap_or(u64::MAX);
			// the specification's outcome, translated
			let expected = remap_offsets(exp, &map);
			let got = project_result(guarded(|| Value::parse_with(s.chars().map(|c| Ok::<_, Infallible>(DecodedChar::new(c, len_of(c)))), o)));
			rep.count("parse_calls");
			let mut ctx2 = ctx.clone();
			ctx2["transport"] = json!(tname);
			compare_outcome(rep, &ctx2, "parse_with (other character lengths)", &expected, &got, strict);
			// every reported offset is a character boundary of the input, in the coordinates of the input
			let boundary = |p: &J| p.as_u64().map(|p| table.iter().any(|x| x.1 == p)).unwrap_or(true);
			if let Some(err) = got.get("err") {
				if !boundary(&err["pos"]) || !boundary(&err["span"][0]) || !boundary(&err["span"][1]) {
					rep.mismatch("C07.error", json!({"what": "a reported offset is not a character boundary of the input (character lengths reported in another unit)", "transport": tname,
						"input": ctx2, "observed": got}));
				}
			}
		}
	}
	// pulls (C03): through a counting, non-fused iterator
	let items: Vec<DecodedChar> = s.chars().map(DecodedChar::from_utf8).collect();
	let mut it = Counting::new(&items);
	let r = guarded(|| Value::parse_with(&mut it, o));
	let got = project_result(r);
	if got != first {
		rep.mismatch("C01.entrypoints", json!({"what": "counting iterator entry point disagrees", "input": ctx, "observed": got, "parse_str_with": first}));
	}
	if let Some(maxp) = exp["pulls"].as_u64() {
		if it.polled_after_end {
			rep.count("polled_after_end");
		}
		// informational: the specification's single-pass parser needs `maxp` characters;
		// an iterator hands out each character once by construction, so reading further
		// ahead is not a violation of C03
		if it.pulls as u64 > maxp {
			rep.count("pulled_beyond_spec_need");
		}
		if it.pulls > items.len() {
			rep.mismatch("C03.pulls", json!({"what": "more characters pulled than the input holds", "input": ctx, "pulls": it.pulls}));
		}
	}
	if let Some(tok) = rec.get("tok") {
		check_typed_tokens(rep, &ctx, &s, o, tok);
	}
	// Errors are absorbing (MC_ParserTree!ErrorsAbsorb): an outcome decided at a character inside the input is the
	// outcome of every extension of the input.  The vector carries the tree's alphabet; every one-token extension
	// (and, for every 8th vector, every two-token extension) must give the same outcome.
	if let Some(ext) = rec.get("ext").and_then(|e| e.as_array()) {
		if !ext.is_empty() {
			let toks: Vec<String> = ext.iter().filter_map(cps_to_string).collect();
			let deep = rep.counters["parse_vectors"] % 8 == 0;
			let mut check = |rep: &mut Report, t: String| {
				let r = project_result(guarded(|| Value::parse_str_with(&t, o)));
				rep.count("parse_calls");
				rep.count("extension_parses");
				let ectx = json!({"w": str_to_cps(&t), "text": show(&t), "o": rec["o"], "extension_of": w, "vector": {"k": "parse", "w": str_to_cps(&t), "o": rec["o"], "out": exp}});
				compare_outcome(rep, &ectx, "parse_str_with (input extended beyond the decided error)", exp, &r, strict);
			};
			// when the outcome was decided before the tree's fixed suffix, the tokens are also inserted before the suffix
			// (e.g. before the closing quote of the string the trees of string elements live in)
			let sfx = rec.get("sfx").and_then(|x| x.as_u64()).unwrap_or(0) as usize;
			let split = if rec.get("dec").and_then(|d| d.as_bool()) == Some(true) && sfx > 0 {
				let cs: Vec<char> = s.chars().collect();
				Some((cs[..cs.len() - sfx].iter().collect::<String>(), cs[cs.len() - sfx..].iter().collect::<String>()))
			} else {
				None
			};
			for t1 in &toks {
				check(rep, format!("{s}{t1}"));
				if let Some((head, tail)) = &split {
					check(rep, format!("{head}{t1}{tail}"));
				}
				if deep {
					for t2 in &toks {
						check(rep, format!("{s}{t1}{t2}"));
						if let Some((head, tail)) = &split {
							check(rep, format!("{head}{t1}{t2}{tail}"));
						}
					}
				}
			}
		}
	}
	// C03, iterators that announce an enormous length: when the outcome is decided at a character inside the
	// input, the same error must come back from an iterator whose size_hint lower bound is astronomically large
	// (the text followed by usize::MAX/4 spaces); nothing may be sized by the announced length
	if exp["ok"].as_bool() == Some(false) && exp["err"]["kind"] == "unexpected" && exp["err"]["ch"].as_i64() != Some(-1) {
		let huge = guarded(|| Value::parse_utf8_with(s.chars().chain(std::iter::repeat(' ').take(usize::MAX / 4)).map(Ok::<char, Infallible>), o));
		rep.count("parse_calls");
		let got = project_result(huge);
		if got.get("panic").is_some() {
			rep.mismatch("C03.panic", json!({"what": "parser panicked on an iterator announcing an enormous length (size_hint)", "input": ctx, "observed": got}));
		} else if got != first {
			rep.mismatch("C03.outcome", json!({"what": "outcome changes when the input iterator announces an enormous length", "input": ctx, "observed": got, "parse_str_with": first}));
		}
	}
	if exp["ok"].as_bool() == Some(true) {
		rep.count("accepted");
		if let Ok(Ok((v, cm))) = guarded(|| Value::parse_str_with(&s, o)) {
			if let Err(p) = guarded(|| check_lookups(rep, &ctx, &v)) {
				rep.mismatch("C02.lookup", json!({"what": "key lookup on a parsed object panicked", "input": ctx, "panic": p}));
			}
			// the parsed value is queried from another thread as well (it is Send + Sync: nothing it needs may stay behind in
			// the thread that built it)
			if rep.counters["parse_vectors"] % 16 == 0 && matches!(v, Value::Object(_) | Value::Array(_)) {
				let mut other = Report::new();
				std::thread::scope(|sc| {
					sc.spawn(|| check_lookups(&mut other, &ctx, &v));
				});
				for (a, ds) in other.mismatches.iter() {
					for d in ds {
						rep.mismatch(a, json!({"what": "key lookup from another thread than the one that parsed the document differs from a scan", "detail": d}));
					}
				}
			}
			match guarded(|| code_map_routes(&cm)) {
				Ok(None) => (),
				Ok(Some(route)) => rep.mismatch("C05.container", json!({"what": "the code map, copied / iterated this way, is not the code map that was returned", "route": route, "input": ctx})),
				Err(p) => rep.mismatch("C05.container", json!({"what": "a CodeMap container operation panicked", "panic": p, "input": ctx})),
			}
			if rec.get("nav").is_some() && project(&v) == exp["v"] && project_cm(&cm) == exp["cm"] {
				crate::navv::NAV_OPTIONS.with(|x| *x.borrow_mut() = o);
				if let Err(p) = guarded(|| crate::navv::check_nav(rep, &ctx, &s, &v, &cm, &rec["nav"])) {
					rep.mismatch("C11.nav", json!({"what": "navigation panicked", "input": ctx, "panic": p}));
				}
				// the same navigation over a document parsed from characters measured in UTF-16 bytes: the code map is then in
				// UTF-16 coordinates, and every offset must still designate its element's source text
				if rep.counters["parse_vectors"] % 4 == 1 {
					if let Ok(Ok((v16, cm16))) = guarded(|| Value::parse_with(s.chars().map(|c| Ok::<_, Infallible>(DecodedChar::new(c, 2 * c.len_utf16()))), o)) {
						crate::navv::NAV_UTF16.with(|m| m.set(true));
						let mut c16 = ctx.clone();
						c16["transport"] = json!("utf16");
						let r = guarded(|| crate::navv::check_nav(rep, &c16, &s, &v16, &cm16, &rec["nav"]));
						crate::navv::NAV_UTF16.with(|m| m.set(false));
						if let Err(p) = r {
							rep.mismatch("C11.nav", json!({"what": "navigation panicked (UTF-16 coordinates)", "input": c16, "panic": p}));
						}
					}
				}
			}
		}
	} else {
		rep.count("rejected");
	}
	rep.note_distinct(hash_of(&(s.as_str(), o)));
	let n = rep.counters["parse_vectors"];
	rep.sample(9973, n, || json!({"input": show(&s), "o": rec["o"], "expected": exp}));
}

// ------------------------------------------------------------------------- impl -> spec

fn corpus() -> Vec<String> {
	let mut out = vec![];
	if let Ok(rd) = std::fs::read_dir("/repo/tests/inputs") {
		let mut paths: Vec<_> = rd.filter_map(|e| e.ok()).map(|e| e.path()).collect();
		paths.sort();
		for p in paths {
			if let Ok(bytes) = std::fs::read(&p) {
				if bytes.len() <= 400 {
					if let Ok(s) = String::from_utf8(bytes) {
						out.push(s)
					}
				}
			}
		}
	}
	out
}

fn corpus_bytes() -> Vec<Vec<u8>> {
	let mut out = vec![];
	if let Ok(rd) = std::fs::read_dir("/repo/tests/inputs") {
		let mut paths: Vec<_> = rd.filter_map(|e| e.ok()).map(|e| e.path()).collect();
		paths.sort();
		for p in paths {
			if let Ok(bytes) = std::fs::read(&p) {
				if bytes.len() <= 300 {
					out.push(bytes)
				}
			}
		}
	}
	out
}

fn observed_outcome(s: &str, o: Options) -> (J, usize, bool) {
	let items: Vec<DecodedChar> = s.chars().map(DecodedChar::from_utf8).collect();
	let mut it = Counting::new(&items);
	let r = guarded(|| Value::parse_with(&mut it, o));
	let mut agree = true;
	let got = project_result(r);
	// the other entry points must agree with the iterator one
	for (_, other) in run_all_str(s, o) {
		if other.get("cm").is_some() || other.get("err").is_some() {
			if other.get("cm").is_some() && other != got || other.get("err").is_some() && other["err"] != got["err"] {
				agree = false;
			}
		} else if other.get("v") != got.get("v") || other.get("panic").is_some() {
			agree = false;
		}
	}
	(got, it.pulls, agree)
}

fn opts_j(o: &Options) -> J {
	json!([o.accept_truncated_surrogate_pair, o.accept_invalid_codepoints])
}

const ALL_OPTS: [Options; 4] = [
	Options { accept_truncated_surrogate_pair: false, accept_invalid_codepoints: false },
	Options { accept_truncated_surrogate_pair: true, accept_invalid_codepoints: false },
	Options { accept_truncated_surrogate_pair: false, accept_invalid_codepoints: true },
	Options { accept_truncated_surrogate_pair: true, accept_invalid_codepoints: true },
];

/// Record real parses.  `--fine k`: the first k documents are recorded at the
/// grain of pulls and fragment events (hooks), the others as one `doc` event.
pub fn record(args: &Args) {
	let n = args.num("n", 300);
	let fine = args.num("fine", 30);
	let out = args.get("out").unwrap_or_else(|| tool_error("record-parse: --out required"));
	let mut rng = Rng::new(seed() ^ 0x9a45e);
	let g = crate::gen::DocGen::new();
	let corpus = corpus();
	let mut lines: Vec<J> = vec![];
	let mut lookup_fail = 0u64;
	let mut disagree: Vec<J> = vec![];
	for i in 0..n {
		// input families: generated valid documents, damaged documents, corpus and damaged corpus
		let base = match i % 5 {
			0 | 1 | 2 => g.doc(&mut rng, 1 + i % 4),
			_ if !corpus.is_empty() => rng.pick(&corpus).clone(),
			_ => g.doc(&mut rng, 2),
		};
		let text = match i % 3 {
			0 => base,
			1 => g.damage(&mut rng, &base),
			_ => {
				let d = g.damage(&mut rng, &base);
				if rng.chance(1, 2) { g.damage(&mut rng, &d) } else { d }
			}
		};
		// lenient options matter for surrogates: sprinkle unpaired escapes into some strings
		let text = if i % 7 == 3 { text.replacen('"', *rng.pick(&["\"\\uD800", "\"\\uDC00", "\"\\uD83D\\uD83D\\uDE00", "\"\\uDBFF\\u0041"]), 1) } else { text };
		let w = str_to_cps(&text);
		if i < fine {
			let o = ALL_OPTS[i % 4];
			lines.push(json!({"ev": "start", "o": opts_j(&o)}));
			let items: Vec<DecodedChar> = text.chars().map(DecodedChar::from_utf8).collect();
			let mut it = Counting::new(&items);
			json_syntax::verif::start();
			let r = guarded(|| Value::parse_with(&mut it, o));
			let evs = json_syntax::verif::take();
			for e in evs {
				lines.push(match e {
					json_syntax::verif::Event::Mark(c, len) => json!({"ev": "pull", "c": c, "len": len}),
					json_syntax::verif::Event::BeginFragment { index, position } => json!({"ev": "begin", "i": index, "pos": position}),
					json_syntax::verif::Event::EndFragment { index, position, volume } => json!({"ev": "end", "i": index, "pos": position, "vol": volume}),
				});
			}
			lines.push(json!({"ev": "done", "out": project_result(r), "w": w}));
		} else {
			let os: &[Options] = if i % 2 == 0 { &ALL_OPTS[..1] } else { &ALL_OPTS[..] };
			for o in os {
				let (got, pulls, agree) = observed_outcome(&text, *o);
				if !agree {
					disagree.push(json!({"w": w, "o": opts_j(o)}));
				}
				if got["ok"] == true {
					if let Ok(Ok((v, _))) = guarded(|| Value::parse_str_with(&text, *o)) {
						let mut rep = Report::new();
						check_lookups_pub(&mut rep, &json!({"w": w}), &v);
						if !rep.mismatch_counts.is_empty() {
							lookup_fail += 1;
						}
					}
				}
				lines.push(json!({"ev": "doc", "w": w, "o": opts_j(o), "out": got, "pulls": pulls}));
			}
		}
	}
	// ---- byte input: random byte strings, single-byte edits and truncations of the raw corpus files
	let nbytes = args.num("bytes", n / 2);
	let raw = corpus_bytes();
	for i in 0..nbytes {
		let mut b: Vec<u8> = match i % 4 {
			0 => (0..rng.below(10)).map(|_| *rng.pick(&[b'[', b']', b'{', b'}', b'"', b':', b',', b'1', b'-', b'e', b' ', b't', b'\\', b'u', 0x80, 0xbf, 0xc2, 0xe2, 0x82, 0xac, 0xf0, 0x9f, 0xed, 0xa0, 0xff, 0xc0, 0xfe])).collect(),
			1 => (0..rng.below(8)).map(|_| rng.below(256) as u8).collect(),
			_ if !raw.is_empty() => rng.pick(&raw).clone(),
			_ => g.doc(&mut rng, 2).into_bytes(),
		};
		if i % 4 >= 2 && !b.is_empty() {
			let p = rng.below(b.len());
			match rng.below(4) {
				0 => b.truncate(p),
				1 => b[p] = rng.below(256) as u8,
				2 => b.insert(p, *rng.pick(&[0xff, 0x80, 0xc3, 0xe2, b'"', b'x'])),
				_ => {
					b.remove(p);
				}
			}
		}
		let o = ALL_OPTS[if i % 3 == 0 { rng.below(4) } else { 0 }];
		let got = project_result(guarded(|| Value::parse_slice_with(&b, o)));
		// the fallible-iterator entry point sees the same stream
		let stream = fallible_chars(&b);
		let alt = stream_as_utf8(project_result(guarded(|| Value::parse_utf8_with(stream.iter().cloned(), o))));
		if alt != got {
			disagree.push(json!({"bytes": b, "o": opts_j(&o), "parse_slice_with": got, "parse_utf8_with(fallible)": alt}));
		}
		lines.push(json!({"ev": "bdoc", "b": b, "o": opts_j(&o), "out": got}));
	}
	// ---- thorough: EVERY truncation and EVERY single-character edit (from a small replacement set) of short corpus documents
	if args.get("exhaustive-edits").is_some() {
		let reps = ['"', '\\', ',', 'x', '0', ' ', '\u{1}', '}'];
		for doc in corpus.iter().filter(|d| d.chars().count() <= 60) {
			let cs: Vec<char> = doc.chars().collect();
			let mut variants: Vec<String> = (0..cs.len()).map(|p| cs[..p].iter().collect()).collect();
			for p in 0..cs.len() {
				for r in reps.iter() {
					if cs[p] != *r {
						let mut c = cs.clone();
						c[p] = *r;
						variants.push(c.into_iter().collect());
					}
				}
				let mut c = cs.clone();
				c.remove(p);
				variants.push(c.into_iter().collect());
			}
			for t in variants {
				let (got, pulls, agree) = observed_outcome(&t, ALL_OPTS[0]);
				if !agree {
					disagree.push(json!({"w": str_to_cps(&t)}));
				}
				lines.push(json!({"ev": "doc", "w": str_to_cps(&t), "o": opts_j(&ALL_OPTS[0]), "out": got, "pulls": pulls}));
			}
		}
	}
	use std::io::Write;
	let mut f = std::fs::File::create(out).unwrap_or_else(|e| tool_error(&format!("create {out}: {e}")));
	for l in &lines {
		writeln!(f, "{}", l).unwrap();
	}
	let docs = lines.iter().filter(|l| l["ev"] == "doc" || l["ev"] == "done" || l["ev"] == "bdoc").count();
	println!("SUMMARY {}", json!({"events": lines.len(), "parses": docs, "lookup_failures": lookup_fail, "entrypoint_disagreements": disagree,
		"samples": lines.iter().filter(|l| l["ev"] == "doc").take(2).collect::<Vec<_>>()}));
}

pub fn check_lookups_pub(rep: &mut Report, ctx: &J, v: &Value) {
	check_lookups(rep, ctx, v)
}

// ------------------------------------------------------------------------- byte input

fn bytes_of(j: &J) -> Vec<u8> {
	j.as_array().unwrap().iter().map(|b| b.as_u64().unwrap() as u8).collect()
}

/// a fallible character stream built with the standard library's validation:
/// the characters of the longest valid prefix, then one `Err(())`
fn fallible_chars(bytes: &[u8]) -> Vec<Result<char, ()>> {
	match std::str::from_utf8(bytes) {
		Ok(s) => s.chars().map(Ok).collect(),
		Err(e) => {
			let valid = std::str::from_utf8(&bytes[..e.valid_up_to()]).unwrap();
			valid.chars().map(Ok).chain(std::iter::once(Err(()))).collect()
		}
	}
}

fn stream_as_utf8(mut j: J) -> J {
	// a stream error of the fallible iterator is the analogue of InvalidUtf8 on the slice path
	if j["err"]["kind"] == "stream" {
		j["err"]["kind"] = json!("utf8");
	}
	j
}

pub fn replay_bytes(rep: &mut Report, rec: &J) {
	rep.count("bytes_vectors");
	let bytes = bytes_of(&rec["b"]);
	let o = options(&rec["o"]);
	let strict = is_strict(&o);
	let exp = &rec["out"];
	let ctx = json!({"bytes": rec["b"], "lossy_text": show(&String::from_utf8_lossy(&bytes)), "o": rec["o"], "vector": rec});
	let mut results = vec![("parse_slice_with", project_result(guarded(|| Value::parse_slice_with(&bytes, o))))];
	if strict {
		results.push(("parse_slice", project_result(guarded(|| Value::parse_slice(&bytes)))));
	}
	let stream = fallible_chars(&bytes);
	results.push(("parse_utf8_with(fallible iterator)", stream_as_utf8(project_result(guarded(|| Value::parse_utf8_with(stream.iter().cloned(), o))))));
	if let Ok(s) = std::str::from_utf8(&bytes) {
		results.push(("parse_str_with", project_result(guarded(|| Value::parse_str_with(s, o)))));
	}
	rep.add("parse_calls", results.len() as u64);
	for (name, got) in &results {
		// reuse the comparison of `parse` vectors, with byte-specific aspect names
		let mut sub = Report::new();
		compare_outcome(&mut sub, &ctx, name, exp, got, strict);
		for (aspect, items) in sub.mismatches {
			for it in items {
				rep.mismatch(&aspect, it);
			}
		}
	}
	rep.note_distinct(hash_of(&(bytes, rec["o"].to_string())));
	let n = rep.counters["bytes_vectors"];
	rep.sample(4001, n, || json!({"bytes": rec["b"], "expected": exp}));
}
