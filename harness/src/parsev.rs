//! Parser conformance: replay of spec-generated vectors (spec -> impl) and
//! recording of traces of real parses (impl -> spec).
use crate::proj::project;
use crate::util::*;
use decoded_char::DecodedChar;
use json_syntax::parse::{Error, Options};
use json_syntax::{CodeMap, Parse, Value};
use serde_json::{json, Value as J};
use std::convert::Infallible;

pub fn options(o: &J) -> Options {
	Options {
		accept_truncated_surrogate_pair: o[0].as_bool().unwrap_or(false),
		accept_invalid_codepoints: o[1].as_bool().unwrap_or(false),
	}
}

pub fn is_strict(o: &Options) -> bool {
	!o.accept_truncated_surrogate_pair && !o.accept_invalid_codepoints
}

pub fn project_cm(cm: &CodeMap) -> J {
	J::Array(cm.iter().map(|(_, e)| json!([e.span.start(), e.span.end(), e.volume])).collect())
}

pub fn project_err<E>(e: &Error<E>) -> J {
	match e {
		Error::Stream(p, _) => json!({"kind": "stream", "pos": p}),
		Error::Unexpected(p, c) => json!({"kind": "unexpected", "pos": p, "ch": c.map(|c| c as i64).unwrap_or(-1)}),
		Error::InvalidUnicodeCodePoint(s, c) => json!({"kind": "surrogate", "variant": "invalid_cp", "units": [c], "span": [s.start(), s.end()]}),
		Error::MissingLowSurrogate(s, h) => json!({"kind": "surrogate", "variant": "missing_low", "units": [h], "span": [s.start(), s.end()]}),
		Error::InvalidLowSurrogate(s, h, c) => json!({"kind": "surrogate", "variant": "invalid_low", "units": [h, c], "span": [s.start(), s.end()]}),
		Error::InvalidUtf8(p) => json!({"kind": "utf8", "pos": p}),
	}
}

pub fn project_result<E>(r: Result<Result<(Value, CodeMap), Error<E>>, String>) -> J {
	match r {
		Err(p) => json!({"panic": p}),
		Ok(Ok((v, cm))) => json!({"ok": true, "v": project(&v), "cm": project_cm(&cm)}),
		Ok(Err(e)) => json!({"ok": false, "err": project_err(&e)}),
	}
}

/// An input iterator that counts the characters pulled from it (`pulls`) and
/// notices polls after it has returned `None` (informational only: the end
/// marker is not an input character, C03 does not forbid asking again).
pub struct Counting<'a> {
	pub items: &'a [DecodedChar],
	pub i: usize,
	pub pulls: usize,
	pub ended: bool,
	pub polled_after_end: bool,
}

impl<'a> Counting<'a> {
	pub fn new(items: &'a [DecodedChar]) -> Self {
		Counting { items, i: 0, pulls: 0, ended: false, polled_after_end: false }
	}
}

impl<'a, 'b> Iterator for &'b mut Counting<'a> {
	type Item = Result<DecodedChar, Infallible>;
	fn next(&mut self) -> Option<Self::Item> {
		if self.ended {
			self.polled_after_end = true;
		}
		if self.i < self.items.len() {
			self.pulls += 1;
		}
		crate::hooks::emit_pull(self.items.get(self.i).copied());
		match self.items.get(self.i) {
			Some(c) => {
				self.i += 1;
				Some(Ok(*c))
			}
			None => {
				self.ended = true;
				None
			}
		}
	}
}

/// All entry points on a `str` input under options `o`.
pub fn run_all_str(s: &str, o: Options) -> Vec<(&'static str, J)> {
	let mut out = vec![];
	out.push(("parse_str_with", project_result(guarded(|| Value::parse_str_with(s, o)))));
	out.push(("parse_slice_with", project_result(guarded(|| Value::parse_slice_with(s.as_bytes(), o)))));
	out.push(("parse_utf8_with", project_result(guarded(|| Value::parse_utf8_with(s.chars().map(Ok::<char, Infallible>), o)))));
	out.push(("parse_utf8_infallible_with", project_result(guarded(|| Value::parse_utf8_infallible_with(s.chars(), o)))));
	out.push(("parse_with", project_result(guarded(|| Value::parse_with(s.chars().map(|c| Ok::<_, Infallible>(DecodedChar::from_utf8(c))), o)))));
	out.push(("parse_infallible_with", project_result(guarded(|| Value::parse_infallible_with(s.chars().map(DecodedChar::from_utf8), o)))));
	if is_strict(&o) {
		out.push(("parse_str", project_result(guarded(|| Value::parse_str(s)))));
		out.push(("parse_slice", project_result(guarded(|| Value::parse_slice(s.as_bytes())))));
		out.push(("parse_utf8", project_result(guarded(|| Value::parse_utf8(s.chars().map(Ok::<char, Infallible>))))));
		out.push(("parse_infallible_utf8", project_result(guarded(|| Value::parse_infallible_utf8(s.chars())))));
		out.push(("parse", project_result(guarded(|| Value::parse(s.chars().map(|c| Ok::<_, Infallible>(DecodedChar::from_utf8(c))))))));
		out.push(("parse_infallible", project_result(guarded(|| Value::parse_infallible(s.chars().map(DecodedChar::from_utf8))))));
		let fs = guarded(|| s.parse::<Value>());
		// FromStr returns no code map: compare verdict, value and error only.
		out.push((
			"from_str",
			match fs {
				Err(p) => json!({"panic": p}),
				Ok(Ok(v)) => json!({"ok": true, "v": project(&v)}),
				Ok(Err(e)) => json!({"ok": false, "err": project_err(&e)}),
			},
		));
	}
	out
}

fn surrogate_err_matches(exp: &J, got: &J) -> Result<(), String> {
	// property C07: the error carries the offending code units and a span lying
	// inside the offending escape sequence(s)
	let region = &exp["region"];
	let (lo, hi) = (region[0].as_u64().unwrap_or(0), region[1].as_u64().unwrap_or(0));
	let span = &got["span"];
	let (a, b) = (span[0].as_u64().unwrap_or(u64::MAX), span[1].as_u64().unwrap_or(u64::MAX));
	if !(lo <= a && a <= b && b <= hi) {
		return Err(format!("span [{a},{b}) not inside the offending escape(s) [{lo},{hi})"));
	}
	if exp["variant"] == got["variant"] {
		if exp["units"] != got["units"] {
			return Err(format!("code units {} differ from the offending units {}", got["units"], exp["units"]));
		}
	} else {
		// another variant: every carried unit must be one of the offending units
		let eu = exp["units"].as_array().cloned().unwrap_or_default();
		for u in got["units"].as_array().cloned().unwrap_or_default() {
			if !eu.contains(&u) {
				return Err(format!("carried unit {u} is not one of the offending units {}", exp["units"]));
			}
		}
	}
	Ok(())
}

/// Compare one observed outcome with the specification's.  `lenient`: the
/// options are not strict (error details are then outside C07).
pub fn compare_outcome(rep: &mut Report, ctx: &J, entry: &str, exp: &J, got: &J, strict: bool) {
	let vprop = if strict { "C01" } else { "C12" };
	let detail = |what: &str| json!({"what": what, "entry": entry, "input": ctx, "expected": exp, "observed": got});
	if got.get("panic").is_some() {
		rep.mismatch("C03.panic", detail("parser panicked"));
		return;
	}
	let eok = exp["ok"].as_bool().unwrap_or(false);
	let gok = got["ok"].as_bool().unwrap_or(false);
	if eok != gok {
		rep.mismatch(&format!("{vprop}.verdict"), detail(if eok { "valid document rejected" } else { "invalid document accepted" }));
		return;
	}
	if eok {
		if exp["v"] != got["v"] {
			rep.mismatch(if strict { "C02.value" } else { "C12.value" }, detail("parsed value differs from the document's content"));
		}
		if let Some(gcm) = got.get("cm") {
			if &exp["cm"] != gcm {
				rep.mismatch(if strict { "C05.codemap" } else { "C12.codemap" }, detail("code map differs"));
			}
		}
	} else if strict {
		let (ee, ge) = (&exp["err"], &got["err"]);
		let ek = ee["kind"].as_str().unwrap_or("");
		let gk = ge["kind"].as_str().unwrap_or("");
		if ek != gk {
			rep.mismatch("C07.error", detail("error class differs"));
		} else if ek == "unexpected" {
			if ee["pos"] != ge["pos"] || ee["ch"] != ge["ch"] {
				rep.mismatch("C07.error", detail("unexpected-character error does not point at the first offending character"));
			}
		} else if ek == "utf8" {
			if ee["pos"] != ge["pos"] {
				rep.mismatch("C07.error", detail("invalid UTF-8 not reported at the first ill-formed sequence"));
			}
		} else if ek == "surrogate" {
			if let Err(why) = surrogate_err_matches(ee, ge) {
				rep.mismatch("C07.error", detail(&why));
			}
		}
	}
}

/// Key lookups on every object inside a parsed value must be linear scans (C02).
fn check_lookups(rep: &mut Report, ctx: &J, v: &Value) {
	let mut stack = vec![v];
	while let Some(v) = stack.pop() {
		match v {
			Value::Array(a) => stack.extend(a.iter()),
			Value::Object(o) => {
				let mut keys: Vec<&str> = o.iter().map(|e| e.key.as_str()).collect();
				keys.sort();
				keys.dedup();
				keys.push("\u{1}absent");
				for k in keys {
					let scan: Vec<usize> = o.iter().enumerate().filter(|(_, e)| e.key.as_str() == k).map(|(i, _)| i).collect();
					let idx: Vec<usize> = o.indexes_of(k).collect();
					let vals_ok = o.get(k).map(project).collect::<Vec<_>>() == scan.iter().map(|&i| project(&o.entries()[i].value)).collect::<Vec<_>>();
					let ents: Vec<usize> = o.get_entries_with_index(k).map(|(i, _)| i).collect();
					if idx != scan || !vals_ok || ents != scan || o.contains_key(k) != !scan.is_empty() || o.index_of(k) != scan.first().copied() {
						rep.mismatch("C02.lookup", json!({"what": "key lookup on a parsed object differs from a scan of its entries", "input": ctx, "key": k, "scan": scan, "indexes_of": idx}));
					}
				}
				stack.extend(o.iter().map(|e| &e.value));
			}
			_ => (),
		}
	}
}

/// Replay one `parse` vector.
pub fn replay_parse(rep: &mut Report, rec: &J) {
	rep.count("parse_vectors");
	let w = &rec["w"];
	let s = match cps_to_string(w) {
		Some(s) => s,
		None => tool_error("parse vector with a non-scalar character"),
	};
	let o = options(&rec["o"]);
	let strict = is_strict(&o);
	let exp = &rec["out"];
	let ctx = json!({"w": w, "text": show(&s), "o": rec["o"], "vector": rec});
	let results = run_all_str(&s, o);
	rep.add("parse_calls", results.len() as u64);
	// all entry points give the same result (C01)
	let first = results[0].1.clone();
	for (name, got) in &results {
		compare_outcome(rep, &ctx, name, exp, got, strict);
		let same = if *name == "from_str" {
			got["ok"] == first["ok"] && got.get("v") == first.get("v") && got.get("err") == first.get("err")
		} else {
			*got == first
		};
		if !same {
			rep.mismatch("C01.entrypoints", json!({"what": "entry points disagree", "input": ctx, "entry": name, "observed": got, "parse_str_with": first}));
		}
	}
	// pulls (C03): through a counting, non-fused iterator
	let items: Vec<DecodedChar> = s.chars().map(DecodedChar::from_utf8).collect();
	let mut it = Counting::new(&items);
	let r = guarded(|| Value::parse_with(&mut it, o));
	let got = project_result(r);
	if got != first {
		rep.mismatch("C01.entrypoints", json!({"what": "counting iterator entry point disagrees", "input": ctx, "observed": got, "parse_str_with": first}));
	}
	if let Some(maxp) = exp["pulls"].as_u64() {
		if it.polled_after_end {
			rep.count("polled_after_end");
		}
		if it.pulls as u64 > maxp {
			rep.mismatch("C03.pulls", json!({"what": "input pulled more often than once per character", "input": ctx, "pulls": it.pulls, "max": maxp, "polled_after_end": it.polled_after_end}));
		}
	}
	if exp["ok"].as_bool() == Some(true) {
		rep.count("accepted");
		if let Ok((v, _)) = Value::parse_str_with(&s, o) {
			check_lookups(rep, &ctx, &v);
		}
	} else {
		rep.count("rejected");
	}
	rep.note_distinct(hash_of(&(s.as_str(), o)));
	let n = rep.counters["parse_vectors"];
	rep.sample(9973, n, || json!({"input": show(&s), "o": rec["o"], "expected": exp}));
}
