//! The Deserializer of `Value` as a request / response protocol (SerdeDe.tla): a probe
//! visitor records which visit method is called; sequences / maps are pulled `pulls` times.
use crate::proj::build;
use crate::util::*;
use json_syntax::object::Entry;
use json_syntax::{DeserializeError, Value};
use serde::de::{DeserializeSeed, Deserializer, EnumAccess, IgnoredAny, MapAccess, SeqAccess, VariantAccess, Visitor};
use serde_json::{json, Value as J};
use std::fmt;

#[derive(Clone)]
struct Probe {
	pulls: usize,
	variant_kind: Option<String>,
}

macro_rules! visit_int {
	($($f:ident : $t:ty => $name:expr),*) => {
		$(fn $f<E: serde::de::Error>(self, _v: $t) -> Result<J, E> { Ok(json!({"r": "visit", "m": $name})) })*
	};
}

impl<'de> Visitor<'de> for Probe {
	type Value = J;
	fn expecting(&self, f: &mut fmt::Formatter) -> fmt::Result {
		f.write_str("anything (probe)")
	}
	fn visit_bool<E: serde::de::Error>(self, v: bool) -> Result<J, E> {
		Ok(json!({"r": "visit", "m": "bool", "b": v}))
	}
	visit_int!(visit_i8: i8 => "i8", visit_i16: i16 => "i16", visit_i32: i32 => "i32", visit_i128: i128 => "i128",
		visit_u8: u8 => "u8", visit_u16: u16 => "u16", visit_u32: u32 => "u32", visit_u128: u128 => "u128", visit_f32: f32 => "f32", visit_f64: f64 => "f64");
	fn visit_i64<E: serde::de::Error>(self, v: i64) -> Result<J, E> {
		Ok(json!({"r": "visit", "m": "i64", "n": str_to_cps(&v.to_string())}))
	}
	fn visit_u64<E: serde::de::Error>(self, v: u64) -> Result<J, E> {
		Ok(json!({"r": "visit", "m": "u64", "n": str_to_cps(&v.to_string())}))
	}
	fn visit_str<E: serde::de::Error>(self, v: &str) -> Result<J, E> {
		Ok(json!({"r": "visit", "m": "string", "s": str_to_cps(v)}))
	}
	fn visit_unit<E: serde::de::Error>(self) -> Result<J, E> {
		Ok(json!({"r": "visit", "m": "unit"}))
	}
	fn visit_none<E: serde::de::Error>(self) -> Result<J, E> {
		Ok(json!({"r": "visit", "m": "none"}))
	}
	fn visit_some<D: Deserializer<'de>>(self, _d: D) -> Result<J, D::Error> {
		Ok(json!({"r": "visit", "m": "some"}))
	}
	fn visit_newtype_struct<D: Deserializer<'de>>(self, _d: D) -> Result<J, D::Error> {
		Ok(json!({"r": "visit", "m": "newtype_struct"}))
	}
	fn visit_seq<A: SeqAccess<'de>>(self, mut a: A) -> Result<J, A::Error> {
		let mut n = 0;
		while n < self.pulls {
			match a.next_element::<IgnoredAny>()? {
				Some(_) => n += 1,
				None => break,
			}
		}
		Ok(json!({"r": "visit", "m": "seq", "pulled": n}))
	}
	fn visit_map<A: MapAccess<'de>>(self, mut a: A) -> Result<J, A::Error> {
		let mut n = 0;
		while n < self.pulls {
			match a.next_entry::<IgnoredAny, IgnoredAny>()? {
				Some(_) => n += 1,
				None => break,
			}
		}
		Ok(json!({"r": "visit", "m": "map", "pulled": n}))
	}
	fn visit_enum<A: EnumAccess<'de>>(self, a: A) -> Result<J, A::Error> {
		let (variant, access): (String, A::Variant) = a.variant()?;
		match self.variant_kind.as_deref() {
			None => {
				// observe whether a payload is present: a newtype access succeeds exactly then
				let payload = access.newtype_variant::<IgnoredAny>().is_ok();
				Ok(json!({"r": "visit", "m": "enum", "variant": str_to_cps(&variant), "payload": payload}))
			}
			Some("unit") => access.unit_variant().map(|_| json!({"r": "visit", "m": "ok"})),
			Some("newtype") => access.newtype_variant::<IgnoredAny>().map(|_| json!({"r": "visit", "m": "seed"})),
			Some("tuple") => access.tuple_variant(2, Probe { pulls: self.pulls, variant_kind: None }),
			Some(_) => access.struct_variant(&["a"], Probe { pulls: self.pulls, variant_kind: None }),
		}
	}
}

fn classify(r: Result<J, DeserializeError>) -> J {
	match r {
		Ok(j) => j,
		Err(e) => {
			let m = e.to_string();
			let c = if m.starts_with("invalid type") { "invalid_type" } else if m.starts_with("invalid length") { "invalid_length" } else if m.starts_with("invalid value") { "invalid_value" } else { "custom" };
			json!({"r": "err", "e": c, "msg": m})
		}
	}
}

fn request<'de, D: Deserializer<'de>>(d: D, req: &str, p: Probe) -> Result<J, D::Error> {
	match req {
		"any" => d.deserialize_any(p),
		"bool" => d.deserialize_bool(p),
		"i8" => d.deserialize_i8(p),
		"i16" => d.deserialize_i16(p),
		"i32" => d.deserialize_i32(p),
		"i64" => d.deserialize_i64(p),
		"i128" => d.deserialize_i128(p),
		"u8" => d.deserialize_u8(p),
		"u16" => d.deserialize_u16(p),
		"u32" => d.deserialize_u32(p),
		"u64" => d.deserialize_u64(p),
		"u128" => d.deserialize_u128(p),
		"f32" => d.deserialize_f32(p),
		"f64" => d.deserialize_f64(p),
		"char" => d.deserialize_char(p),
		"str" => d.deserialize_str(p),
		"string" => d.deserialize_string(p),
		"bytes" => d.deserialize_bytes(p),
		"byte_buf" => d.deserialize_byte_buf(p),
		"option" => d.deserialize_option(p),
		"unit" => d.deserialize_unit(p),
		"unit_struct" => d.deserialize_unit_struct("U", p),
		"newtype_struct" => d.deserialize_newtype_struct("N", p),
		"seq" => d.deserialize_seq(p),
		"tuple" => d.deserialize_tuple(2, p),
		"tuple_struct" => d.deserialize_tuple_struct("T", 2, p),
		"map" => d.deserialize_map(p),
		"struct" => d.deserialize_struct("S", &["a"], p),
		"enum" => d.deserialize_enum("E", &["A", "B"], p),
		"identifier" => d.deserialize_identifier(p),
		"ignored_any" => d.deserialize_ignored_any(p),
		other => tool_error(&format!("de vector: unknown request {other}")),
	}
}

struct KeySeed(String);
impl<'de> DeserializeSeed<'de> for KeySeed {
	type Value = J;
	fn deserialize<D: Deserializer<'de>>(self, d: D) -> Result<J, D::Error> {
		request(d, &self.0, Probe { pulls: 99, variant_kind: None })
	}
}
struct KeyVisitor(String);
impl<'de> Visitor<'de> for KeyVisitor {
	type Value = J;
	fn expecting(&self, f: &mut fmt::Formatter) -> fmt::Result {
		f.write_str("a map")
	}
	fn visit_map<A: MapAccess<'de>>(self, mut a: A) -> Result<J, A::Error> {
		let r = a.next_key_seed(KeySeed(self.0))?;
		let _ = a.next_value::<IgnoredAny>()?;
		Ok(r.unwrap_or(json!({"r": "visit", "m": "no_key"})))
	}
}

fn strip(mut j: J) -> J {
	if let Some(o) = j.as_object_mut() {
		o.remove("msg");
	}
	j
}

pub fn replay_de(rep: &mut Report, rec: &J) {
	rep.count("de_vectors");
	let v = build(&rec["v"]).unwrap_or_else(|e| tool_error(&e));
	let req = rec["req"].as_str().unwrap().to_string();
	let pulls = rec["pulls"].as_u64().unwrap() as usize;
	let got = match rec["kind"].as_str().unwrap() {
		"value" => guarded(|| classify(request(v.clone(), &req, Probe { pulls, variant_kind: None }))),
		"variant" => guarded(|| classify(v.clone().deserialize_enum("E", &["A", "B"], Probe { pulls, variant_kind: Some(req.clone()) }))),
		_ => {
			let key = v.as_str().unwrap().to_string();
			let o: json_syntax::Object = vec![Entry::new(key.as_str().into(), Value::Null)].into_iter().collect();
			guarded(|| classify(Value::Object(o).deserialize_map(KeyVisitor(req.clone()))))
		}
	};
	rep.count("de_calls");
	match got {
		Err(p) => rep.mismatch("C16.de_panic", json!({"what": "deserializer panicked", "vector": rec, "panic": p})),
		Ok(mut g) => {
			if rec["kind"] == "key" {
				// the key deserializer's integer visits are compared by method only
				if let Some(o) = g.as_object_mut() {
					o.remove("n");
				}
			}
			if strip(g.clone()) != rec["exp"] {
				rep.mismatch("C16.de_protocol", json!({"what": "Deserializer response differs from the request/response specification (SerdeDe)", "vector": rec, "observed": g}));
				rep.mismatch("C17.de_protocol", json!({"what": "Deserializer response differs from the request/response specification (SerdeDe)", "vector": rec, "observed": g}));
			}
		}
	}
	rep.note_distinct(hash_of(&(rec["v"].to_string(), rec["kind"].to_string(), req, pulls)));
	let n = rep.counters["de_vectors"];
	rep.sample(499, n, || rec.clone());
}
