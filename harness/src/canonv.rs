//! RFC 8785 canonicalization (C09, C10).
use crate::numgen;
use crate::objv::index_dump;
use crate::proj::{build, project};
use crate::util::*;
use json_syntax::object::Entry;
use json_syntax::{Parse, Print, Value};
use serde_json::{json, Value as J};

pub fn replay_canon(rep: &mut Report, rec: &J) {
	rep.count("canon_vectors");
	let mut v = build(&rec["v"]).unwrap_or_else(|e| tool_error(&e));
	let exp_text = cps_to_string(&rec["text"]).unwrap();
	if let Err(p) = guarded(|| canonicalize_any(&mut v)) {
		rep.mismatch("C09.panic", json!({"what": "canonicalize panicked", "vector": rec, "panic": p}));
		return;
	}
	rep.count("canon_calls");
	let got_text = v.compact_print().to_string();
	if project(&v) != rec["canon"] || got_text != exp_text {
		rep.mismatch("C09.canon", json!({"what": "canonical form differs from RFC 8785 (member order by UTF-16 code units / number rendering / escaping)", "vector": rec, "expected_text": exp_text, "observed_text": got_text}));
	}
	// C10 on the same vectors: idempotence and queryability
	let mut again = v.clone();
	again.canonicalize();
	if again != v || again.compact_print().to_string() != got_text {
		rep.mismatch("C10.idempotent", json!({"what": "canonicalizing twice differs from canonicalizing once", "vector": rec, "once": got_text, "twice": again.compact_print().to_string()}));
	}
	if got_text != exp_text {
		rep.mismatch("C10.invariance", json!({"what": "canonical output depends on member order / spelling (differs from the canonical text of the base document)", "vector": rec, "expected_text": exp_text, "observed_text": got_text}));
	}
	if let Some(d) = queries_after(&mut v) {
		rep.mismatch("C10.queries", json!({"what": "object not fully queryable by key after canonicalization", "vector": rec, "detail": d}));
	}
	rep.note_distinct(hash_of(&rec["v"].to_string()));
	let n = rep.counters["canon_vectors"];
	rep.sample(37, n, || json!({"value": rec["v"], "expected_text": exp_text}));
}

/// every object inside v: key lookups agree with a scan of its entries
fn queries_after(v: &mut Value) -> Option<J> {
	let mut stack = vec![&*v];
	while let Some(x) = stack.pop() {
		match x {
			Value::Array(a) => stack.extend(a.iter()),
			Value::Object(o) => {
				for (i, e) in o.iter().enumerate() {
					let scan: Vec<usize> = o.iter().enumerate().filter(|(_, f)| f.key == e.key).map(|(j, _)| j).collect();
					let idx: Vec<usize> = o.indexes_of(e.key.as_str()).collect();
					if idx != scan || o.index_of(e.key.as_str()) != scan.first().copied() || !o.contains_key(e.key.as_str()) {
						return Some(json!({"key": e.key.as_str(), "position": i, "indexes_of": idx, "scan": scan}));
					}
				}
				if o.contains_key("\u{3}absent") {
					return Some(json!({"key": "absent key reported present"}));
				}
				stack.extend(o.iter().map(|e| &e.value));
			}
			_ => (),
		}
	}
	None
}

// ------------------------------------------------------------------- impl -> spec

fn key_pool(rng: &mut Rng) -> String {
	// boosted: U+E000..U+FFFF versus supplementary planes, prefixes, empty
	let c = |x: u32| char::from_u32(x).unwrap();
	let mut s = String::new();
	if rng.chance(1, 10) {
		// a long common prefix (15..18 characters, some of them two UTF-16 units wide) before the deciding character
		let mut s: String = "abcdefghijklmnopqrstuvwxyz"[..15 + rng.below(4)].to_string();
		if rng.chance(1, 2) {
			s.insert(3, '\u{1f600}');
		}
		s.push(c([0xe000, 0xffff, 0x10000, 0x10ffff, 0x61][rng.below(5)]));
		return s;
	}
	if rng.chance(1, 6) {
		// supplementary characters sharing a high surrogate (or not), followed by a tail that orders the other way
		s.push(c([0x1f600, 0x1f601, 0x10000, 0x10001, 0x10ffff, 0xffff, 0xe000][rng.below(7)]));
		s.push(['a', 'b', '\u{e000}', '\u{10000}'][rng.below(4)]);
		return s;
	}
	for _ in 0..rng.below(4) {
		s.push(match rng.below(9) {
			0 => c(0xe000 + rng.below(0x1fff) as u32),
			1 => c(0x10000 + rng.below(0x100000) as u32),
			2 => c(0xff00 + rng.below(0xff) as u32),
			3 => c(0x10000 + rng.below(4) as u32),
			4 => c(0x20 + rng.below(0x5f) as u32),
			5 => c(0xa0 + rng.below(0x700) as u32),
			6 => *rng.pick(&['\u{0}', '\n', '"', '\\', '\u{7f}', '\u{2028}', '\u{d7ff}', '\u{e000}', '\u{ffff}', '\u{10ffff}']),
			_ => (b'a' + rng.below(3) as u8) as char,
		});
	}
	s
}

fn num(sp: &str) -> Value {
	Value::Number(json_syntax::NumberBuf::new(sp.as_bytes().into()).unwrap_or_else(|_| tool_error(&format!("generated an invalid number {sp}"))))
}

fn ijson_value(rng: &mut Rng, depth: usize, heavy: bool) -> Value {
	let k = if depth == 0 { rng.below(4) } else { rng.below(7) };
	match k {
		0 => rng.pick(&[Value::Null, Value::Boolean(true), Value::Boolean(false)]).clone(),
		1 => Value::String(key_pool(rng).as_str().into()),
		2 | 3 => num(&numgen::canon_number(rng, heavy)),
		4 => Value::Array((0..rng.below(4)).map(|_| ijson_value(rng, depth - 1, heavy)).collect()),
		_ => {
			let mut keys: Vec<String> = vec![];
			for _ in 0..rng.below(6) {
				let k = key_pool(rng);
				if !keys.contains(&k) {
					keys.push(k);
				}
			}
			Value::Object(keys.into_iter().map(|k| Entry::new(k.as_str().into(), ijson_value(rng, depth - 1, heavy))).collect())
		}
	}
}

fn numbers_of(v: &Value, out: &mut Vec<String>) {
	match v {
		Value::Number(n) => {
			if !out.iter().any(|s| s == n.as_str()) {
				out.push(n.as_str().to_string())
			}
		}
		Value::Array(a) => a.iter().for_each(|x| numbers_of(x, out)),
		Value::Object(o) => o.iter().for_each(|e| numbers_of(&e.value, out)),
		_ => (),
	}
}

fn objects_of(v: &Value, out: &mut Vec<J>) {
	match v {
		Value::Array(a) => a.iter().for_each(|x| objects_of(x, out)),
		Value::Object(o) => {
			out.push(json!({"keys": o.iter().map(|e| str_to_cps(e.key.as_str())).collect::<Vec<_>>(), "idx": index_dump(o)}));
			o.iter().for_each(|e| objects_of(&e.value, out))
		}
		_ => (),
	}
}

thread_local! {
	/// one formatting buffer shared by every canonicalize_with call on this thread (what a caller canonicalizing many
	/// documents would do)
	static BUF: std::cell::RefCell<ryu_js::Buffer> = std::cell::RefCell::new(ryu_js::Buffer::new());
	static ROUTE: std::cell::Cell<usize> = std::cell::Cell::new(0);
}

/// canonicalize by one of the public routes, in rotation: Value::canonicalize, Value::canonicalize_with(shared buffer),
/// and - when the value is an object - Object::canonicalize / Object::canonicalize_with on the object itself
pub fn canonicalize_any(v: &mut Value) {
	let r = ROUTE.with(|r| { r.set(r.get() + 1); r.get() });
	match (r % 4, v) {
		(1, v) => BUF.with(|b| v.canonicalize_with(&mut b.borrow_mut())),
		(2, Value::Object(o)) => o.canonicalize(),
		(3, Value::Object(o)) => BUF.with(|b| o.canonicalize_with(&mut b.borrow_mut())),
		(_, v) => v.canonicalize(),
	}
}

/// certificate of one number: spelling, claimed nearest double, rendering by the code under test
fn certificate(sp: &str) -> Option<J> {
	let f: f64 = sp.parse().ok()?;
	if !f.is_finite() {
		return None;
	}
	let (m, e) = numgen::parts(f);
	let mut v = num(sp);
	v.canonicalize();
	let r = match &v {
		Value::Number(n) => n.as_str().to_string(),
		_ => "?".to_string(),
	};
	Some(json!({"sp": str_to_cps(sp), "m": m.to_string().bytes().map(|b| (b - b'0') as u64).collect::<Vec<_>>(), "e": e, "r": str_to_cps(&r)}))
}

/// a meaning-preserving rewriting of a value, as JSON text: shuffled members,
/// respelled numbers, alternative escapes, whitespace
fn rewrite_text(rng: &mut Rng, v: &Value, out: &mut String) {
	let ws = |rng: &mut Rng, out: &mut String| out.push_str(*rng.pick(&["", "", " ", "\n", "\t "]));
	let string = |rng: &mut Rng, s: &str, out: &mut String| {
		out.push('"');
		for c in s.chars() {
			let cu = c as u32;
			if c == '"' || c == '\\' || cu < 0x20 {
				if rng.chance(1, 2) && cu >= 0x20 {
					out.push('\\');
					out.push(c);
				} else {
					out.push_str(&format!("\\u{:04x}", cu));
				}
			} else if rng.chance(1, 4) {
				let mut buf = [0u16; 2];
				for u in c.encode_utf16(&mut buf) {
					out.push_str(&format!("\\u{:04X}", u));
				}
			} else if c == '/' && rng.chance(1, 2) {
				out.push_str("\\/");
			} else {
				out.push(c);
			}
		}
		out.push('"');
	};
	match v {
		Value::Null => out.push_str("null"),
		Value::Boolean(b) => out.push_str(if *b { "true" } else { "false" }),
		Value::Number(n) => out.push_str(&numgen::respell(rng, n.as_str())),
		Value::String(s) => string(rng, s.as_str(), out),
		Value::Array(a) => {
			out.push('[');
			ws(rng, out);
			for (i, x) in a.iter().enumerate() {
				if i > 0 {
					out.push(',');
					ws(rng, out);
				}
				rewrite_text(rng, x, out);
				ws(rng, out);
			}
			out.push(']');
		}
		Value::Object(o) => {
			let mut es: Vec<&Entry> = o.iter().collect();
			rng.shuffle(&mut es);
			out.push('{');
			ws(rng, out);
			for (i, e) in es.iter().enumerate() {
				if i > 0 {
					out.push(',');
					ws(rng, out);
				}
				string(rng, e.key.as_str(), out);
				ws(rng, out);
				out.push(':');
				ws(rng, out);
				rewrite_text(rng, &e.value, out);
				ws(rng, out);
			}
			out.push('}');
		}
	}
}

/// change one object somewhere inside a (canonical) value through the public object API: replace the value of an existing
/// key by a non-canonical number (insert, insert_front, get_mut_or_insert_with, iter_mut, get_mut), or push a new member
/// that sorts first; keys stay unique
fn mutate_in_place(rng: &mut Rng, v: &mut Value, heavy: bool, route: usize) -> bool {
	match v {
		Value::Array(a) => {
			let n = a.len();
			if n == 0 {
				return false;
			}
			let i = rng.below(n);
			mutate_in_place(rng, &mut a[i], heavy, route)
		}
		Value::Object(o) => {
			if o.is_empty() {
				return false;
			}
			let i = rng.below(o.len());
			if rng.chance(1, 3) && mutate_in_place(rng, &mut o.iter_mut().nth(i).unwrap().1, heavy, route) {
				return true;
			}
			let key = o.entries()[i].key.clone();
			let fresh = num(*rng.pick(&["1.0", "2E0", "0.5e1", "100e-2", "1E2", "-0.0", "0.10"]));
			match route % 6 {
				0 => {
					let _ = o.insert(key, fresh).map(|r| r.count());
				}
				1 => {
					let _ = o.insert_front(key, fresh).count();
				}
				2 => {
					*o.get_mut_or_insert_with(key.as_str(), || Value::Null) = fresh;
				}
				3 => {
					*o.iter_mut().nth(i).unwrap().1 = fresh;
				}
				4 => {
					if let Some(x) = o.get_mut(key.as_str()).next() {
						*x = fresh;
					}
				}
				_ => {
					if !o.entries().iter().any(|e| e.key.as_str().is_empty()) {
						o.push("".into(), fresh);
					} else {
						if let Ok(Some(x)) = o.get_unique_mut("") {
							*x = fresh;
						}
					}
				}
			}
			true
		}
		_ => false,
	}
}

/// a value in which keys repeat (outside I-JSON): the members sharing a key hold numbers in several spellings (some
/// numerically equal, some whose lexical and numeric orders disagree), nested objects and arrays
fn dup_value(rng: &mut Rng, depth: usize) -> Value {
	let leaf = |rng: &mut Rng| -> Value {
		match rng.below(4) {
			0 => num(*rng.pick(&["4", "5", "0.5e1", "5.0", "50e-1", "10", "9", "1e1", "4.0", "-0", "0", "0.0", "100", "1E2"])),
			1 => Value::String((*rng.pick(&["", "a", "b", "\u{e9}", "\u{e000}", "\u{1f600}"])).into()),
			2 => Value::Null,
			_ => Value::Boolean(rng.chance(1, 2)),
		}
	};
	if depth == 0 {
		return leaf(rng);
	}
	let keys = ["a", "b", "\u{e000}", "\u{1f600}", ""];
	let n = 2 + rng.below(4);
	let mut es: Vec<Entry> = vec![];
	for _ in 0..n {
		let k = if !es.is_empty() && rng.chance(1, 2) { es[rng.below(es.len())].key.to_string() } else { rng.pick(&keys).to_string() };
		let v = match rng.below(5) {
			0 => dup_value(rng, depth - 1),
			1 => Value::Array((0..rng.below(3)).map(|_| dup_value(rng, depth - 1)).collect()),
			_ => leaf(rng),
		};
		es.push(Entry::new(k.as_str().into(), v));
	}
	Value::Object(es.into_iter().collect())
}

pub fn record(args: &Args) {
	let n = args.num("n", 150);
	let heavy = args.get("heavy").is_some();
	let out = args.get("out").unwrap_or_else(|| tool_error("record-canon: --out required"));
	let mut rng = Rng::new(seed() ^ 0xca909);
	let mut lines = vec![];
	let mut numbers = 0usize;
	let hard = numgen::hard_numbers(heavy);
	for i in 0..n + hard.len() {
		let v = if i < hard.len() {
			// inside an object, so that the rewriting (C10) respells it too
			if i % 2 == 0 { num(&hard[i]) } else { Value::Array(vec![num(&hard[i])]) }
		} else if i % 3 == 0 {
			num(&numgen::canon_number(&mut rng, heavy))
		} else {
			ijson_value(&mut rng, 1 + i % 3, heavy)
		};
		let mut sps = vec![];
		numbers_of(&v, &mut sps);
		let certs: Vec<J> = sps.iter().filter_map(|s| certificate(s)).collect();
		if certs.len() != sps.len() {
			continue; // a number outside the double range: not I-JSON
		}
		numbers += certs.len();
		let mut c = v.clone();
		let r = guarded(|| canonicalize_any(&mut c));
		let text = c.compact_print().to_string();
		let mut c2 = c.clone();
		c2.canonicalize();
		let mut objs = vec![];
		objects_of(&c, &mut objs);
		let qfail = queries_after(&mut c);
		lines.push(json!({"ev": "canon", "v": project(&v), "out": if r.is_ok() { project(&c) } else { json!({"t": "panic"}) }, "text": str_to_cps(&text),
			"again": str_to_cps(&c2.compact_print().to_string()), "nums": certs, "objs": objs, "queries_ok": qfail.is_none()}));
		// The canonical value is then CHANGED in place through the object API and canonicalized again (the same instance:
		// whatever it remembers from the first call must not matter); recorded as one more `canon` event whose input is the
		// changed value.
		// EVERY route of the object API at the same place of the same value (the place is drawn once).
		for route in 0..if r.is_ok() && i % 3 == 1 { 6 } else { 0 } {
			let mut m = c.clone();
			let mut place = Rng(rng.0);
			if route == 5 {
				// the last route consumes the draws
				place = Rng(rng.0);
				let _ = mutate_in_place(&mut rng, &mut c.clone(), heavy, route);
			}
			let changed = mutate_in_place(&mut place, &mut m, heavy, route);
			let unique = |v: &Value| {
				// by a scan of the entries (not through the key index, which is what is under test)
				fn ok(v: &Value) -> bool {
					match v {
						Value::Array(a) => a.iter().all(ok),
						Value::Object(o) => {
							let es = o.entries();
							(0..es.len()).all(|i| (0..i).all(|j| es[i].key != es[j].key)) && es.iter().all(|e| ok(&e.value))
						}
						_ => true,
					}
				}
				ok(v)
			};
			if changed && !unique(&m) {
				// replacing the value of a key that is present (or adding an absent one) produced a repeated key: after
				// canonicalization the object did not answer key-based operations like a scan of its entries would
				lines.push(json!({"ev": "mutfail", "v": project(&c), "after": project(&m)}));
			} else if changed {
				let before = m.clone();
				let mut sps2 = vec![];
				numbers_of(&before, &mut sps2);
				let certs2: Vec<J> = sps2.iter().filter_map(|s| certificate(s)).collect();
				if certs2.len() == sps2.len() {
					let r2 = guarded(|| canonicalize_any(&mut m));
					let text2 = m.compact_print().to_string();
					let mut m2 = m.clone();
					m2.canonicalize();
					let mut objs2 = vec![];
					objects_of(&m, &mut objs2);
					let q2 = queries_after(&mut m);
					numbers += certs2.len();
					lines.push(json!({"ev": "canon", "v": project(&before), "out": if r2.is_ok() { project(&m) } else { json!({"t": "panic"}) }, "text": str_to_cps(&text2),
						"again": str_to_cps(&m2.compact_print().to_string()), "nums": certs2, "objs": objs2, "queries_ok": q2.is_none(), "after_mutation": true}));
				}
			}
		}
		// a rewriting of the same document (C10)
		if i % 2 == 0 {
			let mut tb = String::new();
			rewrite_text(&mut rng, &v, &mut tb);
			match Value::parse_str(&tb) {
				Ok((mut b, _)) => {
					let pb = project(&b);
					canonicalize_any(&mut b);
					lines.push(json!({"ev": "rewrite", "a": project(&v), "b": pb, "ta": str_to_cps(&text), "tb": str_to_cps(&b.compact_print().to_string()), "btext": tb}));
				}
				Err(e) => tool_error(&format!("rewriting does not parse: {e}: {tb}")),
			}
		}
	}
	// the laws of C10 do not depend on the value being I-JSON: with repeated keys canonicalization must still be idempotent
	// and blind to member order, spacing, escaping and number spelling (no canonical text is prescribed for such values,
	// only the relations between outputs are checked)
	for i in 0..n / 3 + 8 {
		let v = if i == 1 || i == 5 {
			// a wide object (sorting may switch algorithm with the size): 70 members, several keys repeated with values whose
			// spelled order and canonical order differ
			let mut es: Vec<Entry> = (0..70).map(|j| Entry::new(format!("k{:02}", (j * 7) % 64).as_str().into(), num(&format!("{}", j)))).collect();
			es.push(Entry::new("dup".into(), num("2")));
			es.push(Entry::new("dup".into(), num("0.5e1")));
			es.push(Entry::new("dup".into(), num("1")));
			rng.shuffle(&mut es);
			Value::Object(es.into_iter().collect())
		} else {
			dup_value(&mut rng, 1 + i % 2)
		};
		let mut tb = String::new();
		rewrite_text(&mut rng, &v, &mut tb);
		let r = guarded(|| {
			let mut a = v.clone();
			a.canonicalize();
			let ta = a.compact_print().to_string();
			a.canonicalize();
			let again = a.compact_print().to_string();
			let qfail = queries_after(&mut a);
			let (mut b, _) = Value::parse_str(&tb).unwrap_or_else(|e| tool_error(&format!("rewriting does not parse: {e}: {tb}")));
			let pb = project(&b);
			b.canonicalize();
			(ta, again, pb, b.compact_print().to_string(), qfail.is_none())
		});
		lines.push(match r {
			Ok((ta, again, pb, tb2, qok)) => json!({"ev": "dup", "a": project(&v), "b": pb, "ta": str_to_cps(&ta), "tb": str_to_cps(&tb2), "again": str_to_cps(&again), "queries_ok": qok, "panic": false, "btext": tb}),
			Err(p) => json!({"ev": "dup", "a": project(&v), "b": project(&v), "ta": [], "tb": [], "again": [], "queries_ok": false, "panic": true, "msg": p, "btext": tb}),
		});
	}
	use std::io::Write;
	let mut f = std::fs::File::create(out).unwrap_or_else(|e| tool_error(&format!("create {out}: {e}")));
	for l in &lines {
		writeln!(f, "{}", l).unwrap();
	}
	println!("SUMMARY {}", json!({"events": lines.len(), "numbers": numbers, "samples": lines.iter().skip(1).take(2).collect::<Vec<_>>()}));
}
