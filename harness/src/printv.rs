//! Printer conformance (C04, C08, C13).
use crate::gen::ValueGen;
use crate::proj::{build, project};
use crate::util::*;
use json_syntax::print::{Indent, Limit, Options};
use json_syntax::{Parse, Print, Value};
use serde_json::{json, Value as J};

/// The printing machinery as a USER of the crate sees it (print::contextual): a user type whose items print like JSON values
/// under a context, laid out by the crate's generic helpers (`[T]: PrintWithSizeAndContext`, `Meta`, `Stripped`,
/// `print_array`, `pre_compute_array_size`).  The text must be the layout of the corresponding JSON array.
pub mod ctxprint {
	use contextual::WithContext;
	use json_syntax::print::{Options, PrecomputeSize, PrecomputeSizeWithContext, Print, PrintWithContext, PrintWithSize, PrintWithSizeAndContext, Size};
	use json_syntax::Value;
	use std::fmt;

	pub struct Ctx;
	#[derive(PartialEq, Eq, Hash)]
	pub struct Item(pub Value);
	/// a user container that is a SET of items (`HashSet<T>: PrintWithSizeAndContext`): printed like the JSON array of its items
	/// in the set's iteration order; returns the text and that order
	pub struct ItemSet(pub std::collections::HashSet<Item>);
	impl PrintWithContext<Ctx> for ItemSet {
		fn contextual_fmt_with(&self, c: &Ctx, f: &mut fmt::Formatter, options: &Options, indent: usize) -> fmt::Result {
			let mut sizes = Vec::new();
			self.0.contextual_pre_compute_size(c, options, &mut sizes);
			let mut index = 0;
			self.0.contextual_fmt_with_size(c, f, options, indent, &sizes, &mut index)
		}
	}
	pub fn print_set(items: &[Value], o: Options) -> (String, Vec<Value>) {
		let set = ItemSet(items.iter().map(|v| Item(v.clone())).collect());
		let order: Vec<Value> = set.0.iter().map(|i| i.0.clone()).collect();
		(set.with(&Ctx).print_with(o).to_string(), order)
	}
	impl PrecomputeSizeWithContext<Ctx> for Item {
		fn contextual_pre_compute_size(&self, _c: &Ctx, options: &Options, sizes: &mut Vec<Size>) -> Size {
			self.0.pre_compute_size(options, sizes)
		}
	}
	impl PrintWithSizeAndContext<Ctx> for Item {
		fn contextual_fmt_with_size(&self, _c: &Ctx, f: &mut fmt::Formatter, options: &Options, indent: usize, sizes: &[Size], index: &mut usize) -> fmt::Result {
			self.0.fmt_with_size(f, options, indent, sizes, index)
		}
	}
	/// a user container: a list of items, each possibly wrapped in locspan::Meta / Stripped
	pub struct Items(pub Vec<locspan::Meta<locspan::Stripped<Item>, u8>>);
	impl PrintWithContext<Ctx> for Items {
		fn contextual_fmt_with(&self, c: &Ctx, f: &mut fmt::Formatter, options: &Options, indent: usize) -> fmt::Result {
			let mut sizes = Vec::new();
			self.0.as_slice().contextual_pre_compute_size(c, options, &mut sizes);
			let mut index = 0;
			self.0.as_slice().contextual_fmt_with_size(c, f, options, indent, &sizes, &mut index)
		}
	}
	pub fn print_items(items: &[Value], o: Options) -> String {
		let it = Items(items.iter().map(|v| locspan::Meta(locspan::Stripped(Item(v.clone())), 7u8)).collect());
		it.with(&Ctx).print_with(o).to_string()
	}
}

/// a sink that fails after `left` bytes
struct Failing { left: usize }
impl std::fmt::Write for Failing {
	fn write_str(&mut self, s: &str) -> std::fmt::Result {
		if s.len() > self.left {
			self.left = 0;
			Err(std::fmt::Error)
		} else {
			self.left -= s.len();
			Ok(())
		}
	}
}

/// A print that FAILS half-way (the sink refuses more bytes) on the current thread: nothing it leaves behind may influence
/// a later print.
pub fn disturb_print() {
	use std::fmt::Write;
	thread_local! { static TURN: std::cell::Cell<usize> = std::cell::Cell::new(0); }
	let turn = TURN.with(|t| { t.set(t.get() + 1); t.get() });
	let _ = guarded(|| {
		let v = Value::Array((0..6).map(|i| Value::Array(vec![Value::Null, Value::String("some text that makes the line long".into()), Value::Object(vec![json_syntax::object::Entry::new("k".into(), Value::Number((i as u8).into()))].into_iter().collect())])).collect());
		let mut sink = Failing { left: 20 + (turn % 7) * 15 };
		match turn % 3 {
			0 => { let _ = write!(sink, "{}", v.pretty_print()); }
			1 => { let _ = write!(sink, "{}", v.compact_print()); }
			_ => {
				let mut o = Options::pretty();
				o.array_limit = Some(Limit::Always);
				o.indent = Indent::Tabs(1);
				let _ = write!(sink, "{}", v.print_with(o));
			}
		}
	});
}

fn limit(j: &J) -> Option<Limit> {
	let u = |i: usize| j[i].as_u64().unwrap() as usize;
	match j[0].as_str().unwrap() {
		"none" => None,
		"always" => Some(Limit::Always),
		"item" => Some(Limit::Item(u(1))),
		"width" => Some(Limit::Width(u(1))),
		"iow" => Some(Limit::ItemOrWidth(u(1), u(2))),
		other => tool_error(&format!("unknown limit {other}")),
	}
}

pub fn options(j: &J) -> Options {
	let f = |k: &str| j[k].as_u64().unwrap_or_else(|| tool_error(&format!("option field {k}"))) as usize;
	let mut o = Options::pretty();
	o.indent = match j["indent"][0].as_str().unwrap() {
		"spaces" => Indent::Spaces(j["indent"][1].as_u64().unwrap() as u8),
		_ => Indent::Tabs(j["indent"][1].as_u64().unwrap() as u8),
	};
	o.array_begin = f("ab");
	o.array_end = f("ae");
	o.array_empty = f("aem");
	o.array_before_comma = f("abc");
	o.array_after_comma = f("aac");
	o.array_limit = limit(&j["alim"]);
	o.object_begin = f("ob");
	o.object_end = f("oe");
	o.object_empty = f("oem");
	o.object_before_comma = f("obc");
	o.object_after_comma = f("oac");
	o.object_before_colon = f("obcol");
	o.object_after_colon = f("oacol");
	o.object_limit = limit(&j["olim"]);
	o
}

fn limit_j(l: &Option<Limit>) -> J {
	// TLC integers are 32-bit: a threshold beyond 2^31 - 1 is recorded as 2^31 - 1 (no text of this harness is that wide,
	// no container has that many children: the layout is the same)
	let c = |x: &usize| (*x).min(i32::MAX as usize);
	match l {
		None => json!(["none"]),
		Some(Limit::Always) => json!(["always"]),
		Some(Limit::Item(i)) => json!(["item", c(i)]),
		Some(Limit::Width(w)) => json!(["width", c(w)]),
		Some(Limit::ItemOrWidth(i, w)) => json!(["iow", c(i), c(w)]),
	}
}

pub fn options_j(o: &Options) -> J {
	json!({
		"indent": match o.indent { Indent::Spaces(n) => json!(["spaces", n]), Indent::Tabs(n) => json!(["tabs", n]) },
		"ab": o.array_begin, "ae": o.array_end, "aem": o.array_empty, "abc": o.array_before_comma, "aac": o.array_after_comma,
		"alim": limit_j(&o.array_limit),
		"ob": o.object_begin, "oe": o.object_end, "oem": o.object_empty, "obc": o.object_before_comma, "oac": o.object_after_comma,
		"obcol": o.object_before_colon, "oacol": o.object_after_colon, "olim": limit_j(&o.object_limit),
	})
}

/// A value printed through the public two-phase interface: `pre_compute_size` fills the size table, `fmt_with_size` consumes it.
/// `wrapped`: through the generic impls for `Meta<Stripped<&Value>, _>`.
struct TwoPhase<'a>(&'a Value, &'a Options, bool);
impl<'a> std::fmt::Display for TwoPhase<'a> {
	fn fmt(&self, f: &mut std::fmt::Formatter) -> std::fmt::Result {
		use json_syntax::print::{PrecomputeSize, PrintWithSize};
		let mut sizes = Vec::new();
		let mut index = 0;
		if self.2 {
			let w = locspan::Meta(locspan::Stripped(self.0), 1u8);
			w.pre_compute_size(self.1, &mut sizes);
			w.fmt_with_size(f, self.1, 0, &sizes, &mut index)
		} else {
			self.0.pre_compute_size(self.1, &mut sizes);
			self.0.fmt_with_size(f, self.1, 0, &sizes, &mut index)
		}
	}
}

fn permute(idx: &mut Vec<usize>, k: usize, out: &mut Vec<Vec<usize>>) {
	if k == idx.len() {
		out.push(idx.clone());
		return;
	}
	for i in k..idx.len() {
		idx.swap(k, i);
		permute(idx, k + 1, out);
		idx.swap(k, i);
	}
}

/// the compact preset AS DOCUMENTED (no indentation, no spacing, no limits) - not whatever `Options::compact()` returns
pub fn is_documented_compact(o: &Options) -> bool {
	matches!(o.indent, Indent::Spaces(0))
		&& [o.array_begin, o.array_end, o.array_empty, o.array_before_comma, o.array_after_comma, o.object_begin, o.object_end, o.object_empty, o.object_before_comma, o.object_after_comma, o.object_before_colon, o.object_after_colon]
			.iter()
			.all(|x| *x == 0)
		&& o.array_limit.is_none()
		&& o.object_limit.is_none()
}

pub fn replay_print(rep: &mut Report, rec: &J) {
	rep.count("print_vectors");
	let v = build(&rec["v"]).unwrap_or_else(|e| tool_error(&e));
	let o = options(&rec["o"]);
	let exp = cps_to_string(&rec["text"]).unwrap_or_else(|| tool_error("print vector: text"));
	// which documented preset the SPECIFICATION says this record is (never the library's own idea of its presets)
	let preset = rec["preset"].as_str().unwrap_or("");
	let is_compact = preset == "compact";
	if !preset.is_empty() {
		let aspect = if is_compact { "C08.compact" } else { "C13.layout" };
		let (made, by_method) = match guarded(|| match preset {
			"compact" => (Options::compact(), v.compact_print().to_string()),
			"pretty" => (Options::pretty(), v.pretty_print().to_string()),
			_ => (Options::inline(), v.inline_print().to_string()),
		}) {
			Ok(x) => x,
			Err(p) => {
				rep.mismatch("C13.panic", json!({"what": format!("{preset}_print() panicked"), "vector": rec, "panic": p}));
				rep.mismatch("C04.panic", json!({"what": format!("{preset}_print() panicked"), "vector": rec, "panic": p}));
				if is_compact {
					rep.mismatch("C08.compact", json!({"what": "compact_print() panicked", "vector": rec, "panic": p}));
				}
				return;
			}
		};
		rep.add("print_calls", 1);
		// What the listed properties pin down: the COMPACT preset is the all-zero record (C08: no whitespace, so print_with of it is
		// compact printing); the INLINE and compact presets never break a line (C13); `X_print()` prints with `Options::X()`.
		// The remaining fields of the pretty / inline presets (two spaces, one space after ',' and ':', the 1-item / 16-column limit)
		// are the specification's records of the documented defaults: a deviation there is an extension deviation (X04.preset).
		let same_record = options_j(&made) == options_j(&o);
		if !same_record {
			let d = json!({"what": format!("Options::{preset}() is not the documented preset"), "vector": rec, "documented": options_j(&o), "observed": options_j(&made)});
			if is_compact {
				rep.mismatch("C08.compact", d);
			} else if preset == "inline" && (made.array_limit.is_some() || made.object_limit.is_some()) {
				rep.mismatch("C13.layout", d);
			} else {
				rep.mismatch("X04.preset", d);
			}
		}
		if by_method.contains('\n') && preset != "pretty" {
			rep.mismatch("C13.layout", json!({"what": format!("{preset}_print() breaks a line"), "vector": rec, "observed_text": by_method}));
		}
		match guarded(|| v.print_with(made.clone()).to_string()) {
			Ok(t) => {
				if t != by_method {
					rep.mismatch(aspect, json!({"what": format!("{preset}_print() differs from print_with(Options::{preset}())"), "vector": rec, "by_method": by_method, "by_options": t}));
				}
				if same_record && t != exp {
					rep.mismatch(aspect, json!({"what": format!("print_with(Options::{preset}()) differs from the documented layout of the preset"), "vector": rec, "expected_text": exp, "observed_text": t}));
				}
			}
			Err(p) => rep.mismatch("C13.panic", json!({"what": "printer panicked", "vector": rec, "panic": p})),
		}
		if is_compact && by_method != exp {
			rep.mismatch("C08.compact", json!({"what": "compact_print() differs from the minimal serialization", "vector": rec, "expected_text": exp, "observed_text": by_method}));
		}
	}
	if rep.counters["print_vectors"] % 5 == 2 {
		disturb_print();
	}
	let got = match guarded(|| v.print_with(o.clone()).to_string()) {
		Ok(s) => s,
		Err(p) => {
			rep.mismatch("C13.panic", json!({"what": "printer panicked", "vector": rec, "panic": p}));
			rep.mismatch("C04.panic", json!({"what": "printer panicked", "vector": rec, "panic": p}));
			if is_compact {
				rep.mismatch("C08.compact", json!({"what": "compact printing panicked (no output at all)", "vector": rec, "panic": p}));
			}
			return;
		}
	};
	rep.count("print_calls");
	if got != exp {
		let aspect = if is_compact { "C08.compact" } else { "C13.layout" };
		rep.mismatch(aspect, json!({"what": "printed text differs from the documented layout", "vector": rec, "expected_text": exp, "observed_text": got}));
	}
	if is_compact {
		let all = [v.compact_print().to_string(), format!("{}", v), v.to_string(), String::from(v.clone())];
		rep.add("print_calls", 4);
		if all.iter().any(|s| *s != exp) {
			rep.mismatch("C08.compact", json!({"what": "compact_print / Display / to_string / String::from differ from the minimal serialization", "vector": rec, "expected_text": exp, "observed": all}));
		}
	}
	// the Print implementations of the component types and of references print the same text
	let direct: Option<Result<String, String>> = match &v {
		Value::Boolean(b) => Some(guarded(|| b.print_with(o.clone()).to_string())),
		Value::Number(n) => Some(guarded(|| n.print_with(o.clone()).to_string())),
		Value::String(s) => Some(guarded(|| s.print_with(o.clone()).to_string())),
		_ => None,
	};
	let by_ref = guarded(|| (&&v).print_with(o.clone()).to_string());
	// the generic impls for annotated values (locspan::Meta, locspan::Stripped) and the two-phase interface behind
	// Print for Value (pre_compute_size, then fmt_with_size with the sizes), entered directly and through the wrappers
	let by_meta = guarded(|| locspan::Meta(locspan::Stripped(v.clone()), 7u8).print_with(o.clone()).to_string());
	let by_stripped = guarded(|| locspan::Stripped(locspan::Meta(&v, "m")).print_with(o.clone()).to_string());
	let two_phase = guarded(|| TwoPhase(&v, &o, false).to_string());
	let two_phase_wrapped = guarded(|| TwoPhase(&v, &o, true).to_string());
	rep.add("print_calls", 5 + direct.is_some() as u64);
	for (how, r) in [("component type", direct), ("reference", Some(by_ref)), ("Meta<Stripped<Value>>", Some(by_meta)), ("Stripped<Meta<&Value>>", Some(by_stripped)),
		("value through pre_compute_size + fmt_with_size", Some(two_phase)), ("Meta<Stripped<&Value>> through pre_compute_size + fmt_with_size", Some(two_phase_wrapped))] {
		match r {
			Some(Ok(t)) if t != exp => {
				let aspect = if is_compact { "C08.compact" } else { "C13.layout" };
				rep.mismatch(aspect, json!({"what": format!("Print of the {how} differs from the documented layout"), "vector": rec, "expected_text": exp, "observed_text": t}));
			}
			Some(Err(p)) => {
				rep.mismatch("C13.panic", json!({"what": format!("printer of the {how} panicked"), "vector": rec, "panic": p}));
				rep.mismatch("C04.panic", json!({"what": format!("printer of the {how} panicked"), "vector": rec, "panic": p}));
			}
			_ => (),
		}
	}
	// C04: the real output (whatever it is) re-parses to the value with the real strict parser
	// Formatter flags (width, fill, alignment, precision, sign, alternate) given to `{}` must not reach INSIDE the document:
	// the text is the specified one, or the specified one padded / truncated as a whole (what std types do) - never a
	// text in which individual characters or numbers were padded or cut (another, possibly invalid, document)
	if rep.counters["print_vectors"] % 3 == 0 {
		let p = v.print_with(o.clone());
		let variants: [(&str, String); 7] = [("{:3}", format!("{:3}", p)), ("{:>9}", format!("{:>9}", p)), ("{:.1}", format!("{:.1}", p)), ("{:08}", format!("{:08}", p)), ("{:#}", format!("{:#}", p)),
			("{:+}", format!("{:+}", p)), ("{:*^5.3}", format!("{:*^5.3}", p))];
		for (spec, t) in variants {
			let whole = |fill: char| t.trim_start_matches(fill) == exp || t.trim_end_matches(fill) == exp || t.trim_matches(fill) == exp;
			let ok = t == exp || whole(' ') || whole('0') || whole('*') || (spec.contains('.') && t.chars().count() <= 5 && exp.starts_with(t.trim_matches('*')));
			if !ok {
				let d = json!({"what": "formatter flags change the document itself (characters / numbers padded or cut individually)", "format": spec, "vector": rec, "observed": t, "expected_text": exp});
				rep.mismatch("C04.flags", d.clone());
				rep.mismatch(if is_compact { "C08.flags" } else { "C13.flags" }, d);
				break;
			}
		}
		if is_compact {
			for (spec, t) in [("{:4}", format!("{:4}", v)), ("{:#}", format!("{:#}", v)), ("{:+.2}", format!("{:+.2}", v)), ("{:#?}-less {:>6}", format!("{:>6}", v))] {
				if t != exp && t.trim_end() != exp && t.trim_start() != exp && !(spec.contains('.') && exp.starts_with(&t)) {
					rep.mismatch("C08.flags", json!({"what": "Display of a value under formatter flags is not its compact text", "format": spec, "vector": rec, "observed": t}));
					break;
				}
			}
		}
	}
	// the same layout through the generic / contextual printing layer a user type goes through
	if let Value::Array(items) = &v {
		match guarded(|| ctxprint::print_items(items, o.clone())) {
			Ok(t) if t == exp => (),
			Ok(t) => rep.mismatch("C13.contextual", json!({"what": "a user container printed through the contextual layer (print_array / pre_compute_array_size over Meta<Stripped<T>>) is not laid out like the JSON array of the same items", "vector": rec, "observed": t})),
			Err(p) => rep.mismatch("C13.panic", json!({"what": "contextual printing panicked", "vector": rec, "panic": p})),
		}
	}
	// ... and a user SET of the items: the layout of the JSON array of the set's items in the set's iteration order (with
	// one distinct item that is the specified text itself; otherwise the slice route, which the line above ties to the
	// specification, is the reference)
	if let Value::Array(items) = &v {
		if items.len() <= 4 {
			match guarded(|| {
				let (t, order) = ctxprint::print_set(items, o.clone());
				let mut reference = if order.as_slice() == items.as_slice() { exp.clone() } else { Value::Array(order.clone()).print_with(o.clone()).to_string() };
				if t != reference {
					// any order of the set's items is a legitimate order for a set (an implementation may sort them)
					let mut idx: Vec<usize> = (0..order.len()).collect();
					let mut perms = vec![];
					permute(&mut idx, 0, &mut perms);
					for p in perms {
						let r = Value::Array(p.iter().map(|i| order[*i].clone()).collect()).print_with(o.clone()).to_string();
						if r == t {
							reference = r;
							break;
						}
					}
				}
				(t, reference)
			}) {
				Ok((t, reference)) if t == reference => (),
				Ok((t, reference)) => rep.mismatch("C13.contextual", json!({"what": "a user set printed through the contextual layer (HashSet<T>) is not laid out like the JSON array of its items", "vector": rec, "observed": t, "expected_text": reference})),
				Err(p) => rep.mismatch("C13.panic", json!({"what": "contextual printing of a set panicked", "vector": rec, "panic": p})),
			}
			rep.count("print_calls");
		}
	}
	if rep.counters["print_vectors"] % 4 == 0 {
		crate::parsev::disturb();
	}
	match guarded(|| Value::parse_str(&got)) {
		Ok(Ok((back, _))) => {
			if back != v {
				rep.mismatch("C04.roundtrip", json!({"what": "printed text parses back to a different value", "vector": rec, "printed": got, "reparsed": project(&back)}));
			}
		}
		Ok(Err(e)) => rep.mismatch("C04.roundtrip", json!({"what": "printed text is rejected by the strict parser", "vector": rec, "printed": got, "error": e.to_string()})),
		Err(p) => rep.mismatch("C04.roundtrip", json!({"what": "re-parse panicked", "vector": rec, "panic": p})),
	}
	rep.note_distinct(hash_of(&(rec["v"].to_string(), rec["o"].to_string())));
	let n = rep.counters["print_vectors"];
	rep.sample(1999, n, || json!({"value": rec["v"], "options": rec["o"], "expected_text": exp}));
}

fn random_options(rng: &mut Rng) -> Options {
	let mut o = Options::pretty();
	o.indent = if rng.chance(2, 3) { Indent::Spaces(rng.below(5) as u8) } else { Indent::Tabs(rng.below(3) as u8) };
	let lim = |rng: &mut Rng| match rng.below(12) {
		// thresholds at the top of the integer range (usize::MAX, usize::MAX - 1, i32 / u32 / u16 boundaries)
		6 => Some(Limit::Item(*rng.pick(&[usize::MAX, usize::MAX - 1, u32::MAX as usize, 65535]))),
		7 => Some(Limit::Width(*rng.pick(&[usize::MAX, usize::MAX - 1, u32::MAX as usize + 1, 65536]))),
		8 => Some(Limit::ItemOrWidth(*rng.pick(&[usize::MAX, 3, 0]), *rng.pick(&[usize::MAX, usize::MAX - 1, 20]))),
		0 => None,
		1 => Some(Limit::Always),
		2 => Some(Limit::Item(rng.below(5))),
		3 => Some(Limit::Width(rng.below(40))),
		_ => Some(Limit::ItemOrWidth(rng.below(5), rng.below(40))),
	};
	o.array_begin = rng.below(4);
	o.array_end = rng.below(4);
	o.array_empty = rng.below(4);
	o.array_before_comma = rng.below(4);
	o.array_after_comma = rng.below(4);
	o.array_limit = lim(rng);
	o.object_begin = rng.below(4);
	o.object_end = rng.below(4);
	o.object_empty = rng.below(4);
	o.object_before_comma = rng.below(4);
	o.object_after_comma = rng.below(4);
	o.object_before_colon = rng.below(4);
	o.object_after_colon = rng.below(4);
	o.object_limit = lim(rng);
	o
}

pub fn rich_gen() -> ValueGen {
	ValueGen {
		keys: vec!["a".into(), "b".into(), "".into(), "k\"\\".into(), "\u{e9}\u{2028}".into(), "a".into(), "long key name".into(), "\u{1}\n".into()],
		strings: vec!["".into(), "x".into(), "\"\\/".into(), "\u{8}\t\n\u{c}\r".into(), "\u{0}\u{1f}\u{7f}".into(), "\u{e9}\u{2028}\u{10000}\u{10ffff}\u{fffe}".into(), "some longer text here".into()],
		numbers: vec!["0".into(), "-0".into(), "1".into(), "12".into(), "-1.5e+3".into(), "1E5".into(), "0.000001".into(), "123456789012345678901234567890".into(), "1.0".into(), "4.50".into()],
		max_children: 4,
		grammar_numbers: true,
	}
}

/// a spine of `depth` nested containers (arrays and one-entry objects) ending in a small value, printed with every
/// container expanded: line k is indented by k indent units
fn deep_case(rng: &mut Rng, g: &ValueGen) -> (Value, Options) {
	// (indent unit, depth): the deepest line is indented by 31..66 columns
	let (unit, depth) = [
		(Indent::Spaces(1), 32usize), (Indent::Spaces(1), 33), (Indent::Spaces(1), 65), (Indent::Spaces(2), 16), (Indent::Spaces(2), 17), (Indent::Spaces(2), 33),
		(Indent::Spaces(3), 11), (Indent::Spaces(4), 8), (Indent::Spaces(4), 9), (Indent::Spaces(4), 16), (Indent::Spaces(8), 4), (Indent::Spaces(8), 8),
		(Indent::Spaces(16), 2), (Indent::Spaces(16), 4), (Indent::Spaces(32), 2), (Indent::Tabs(1), 32), (Indent::Tabs(1), 33), (Indent::Tabs(2), 16), (Indent::Tabs(2), 17),
		(Indent::Tabs(1), 65), (Indent::Tabs(2), 33), (Indent::Tabs(40), 2), (Indent::Tabs(64), 1), (Indent::Spaces(2), 65), (Indent::Spaces(64), 2), (Indent::Spaces(128), 1),
	][rng.below(26)];
	let mut v = g.value(rng, 1);
	for d in 0..depth {
		v = if rng.chance(1, 3) {
			let k = g.keys[rng.below(g.keys.len())].clone();
			Value::Object(vec![json_syntax::object::Entry::new(k.as_str().into(), v)].into_iter().collect())
		} else if d % 5 == 4 {
			Value::Array(vec![Value::Null, v])
		} else {
			Value::Array(vec![v])
		};
	}
	let mut o = if rng.chance(1, 2) { Options::pretty() } else { random_options(rng) };
	o.indent = unit;
	if rng.chance(3, 4) {
		o.array_limit = Some(if rng.chance(1, 2) { Limit::Always } else { Limit::Width(rng.below(12)) });
		o.object_limit = Some(if rng.chance(1, 2) { Limit::Always } else { Limit::Item(0) });
	}
	(v, o)
}

fn big_spacing_case(rng: &mut Rng, g: &ValueGen) -> (Value, Options) {
	let d = 1 + rng.below(2);
	let v = g.value(rng, d);
	let mut o = random_options(rng);
	let big = |rng: &mut Rng| [0usize, 1, 15, 16, 17, 31, 32, 33, 63, 64, 65, 100][rng.below(12)];
	for _ in 0..1 + rng.below(3) {
		let x = big(rng);
		match rng.below(13) {
			0 => o.array_begin = x,
			1 => o.array_end = x,
			2 => o.array_empty = x,
			3 => o.array_before_comma = x,
			4 => o.array_after_comma = x,
			5 => o.object_begin = x,
			6 => o.object_end = x,
			7 => o.object_empty = x,
			8 => o.object_before_comma = x,
			9 => o.object_after_comma = x,
			10 => o.object_before_colon = x,
			11 => o.object_after_colon = x,
			_ => o.indent = if rng.chance(1, 2) { Indent::Spaces(x.min(255) as u8) } else { Indent::Tabs(x.min(255) as u8) },
		}
	}
	(v, o)
}

fn long_string_case(rng: &mut Rng) -> (Value, Options) {
	let multi = ["\u{e9}", "\u{20ac}", "\u{1f600}", "\u{800}", "\u{fff}"];
	let esc = ["\"", "\\", "\n", "\t", "\u{1}", "\u{1f}", "\u{8}"];
	let mut mk = |rng: &mut Rng| -> String {
		let target = [30usize, 33, 40, 249, 251, 253, 256, 260, 300][rng.below(9)];
		let mut s = String::new();
		// extra bytes of multi-byte characters vs extra characters of escapes
		let (mut extra_bytes, mut extra_chars) = (0i64, 0i64);
		let balanced = rng.chance(1, 2);
		while s.len() < target {
			match rng.below(6) {
				0 => {
					let m = multi[rng.below(multi.len())];
					extra_bytes += m.len() as i64 - 1;
					s.push_str(m);
				}
				1 => {
					let e = esc[rng.below(esc.len())];
					extra_chars += match e { "\u{1}" | "\u{1f}" => 5, _ => 1 };
					s.push_str(e);
				}
				_ => s.push((b'a' + rng.below(26) as u8) as char),
			}
		}
		if balanced {
			// top up with one-extra units until both sides are equal
			while extra_bytes < extra_chars {
				s.push('\u{e9}');
				extra_bytes += 1;
			}
			while extra_chars < extra_bytes {
				s.push('"');
				extra_chars += 1;
			}
		}
		if rng.chance(1, 3) {
			// a multi-byte character straddling a 251 / 256 byte mark
			let mut t = "a".repeat([249usize, 250, 254, 255][rng.below(4)]);
			t.push_str(multi[rng.below(multi.len())]);
			t.push_str(&s[..s.char_indices().nth(5).map(|x| x.0).unwrap_or(0)]);
			return t;
		}
		s
	};
	let a = mk(rng);
	let b = mk(rng);
	let v = match rng.below(3) {
		0 => Value::String(a.as_str().into()),
		1 => Value::Object(vec![json_syntax::object::Entry::new(a.as_str().into(), Value::String(b.as_str().into())), json_syntax::object::Entry::new(b.as_str().into(), Value::Null)].into_iter().collect()),
		_ => Value::Array(vec![Value::String(a.as_str().into()), Value::String(b.as_str().into())]),
	};
	let o = match rng.below(4) {
		0 => Options::compact(),
		1 => Options::pretty(),
		2 => Options::inline(),
		_ => random_options(rng),
	};
	(v, o)
}

/// 66..71 small containers under one root; `compact`: the compact preset (else a layout that expands every container)
fn many_containers_case(rng: &mut Rng, compact: bool) -> (Value, Options) {
	let n = 66 + rng.below(6);
	let items: Vec<Value> = (0..n)
		.map(|i| match i % 3 {
			0 => Value::Array(vec![Value::Null, Value::Boolean(true)]),
			1 => Value::Object(vec![json_syntax::object::Entry::new("k".into(), Value::Array(vec![]))].into_iter().collect()),
			_ => Value::Array(vec![Value::Array(vec![Value::Null])]),
		})
		.collect();
	let v = if rng.chance(1, 2) { Value::Array(items) } else { Value::Object(items.into_iter().enumerate().map(|(i, x)| json_syntax::object::Entry::new(format!("k{i}").as_str().into(), x)).collect()) };
	let o = if compact {
		Options::compact()
	} else {
		let mut o = Options::pretty();
		o.array_limit = Some(Limit::Always);
		o.object_limit = Some(Limit::Item(0));
		o
	};
	(v, o)
}

/// every container of `v`, in pre-order
fn containers<'a>(v: &'a Value, out: &mut Vec<&'a Value>) {
	match v {
		Value::Array(a) => {
			out.push(v);
			a.iter().for_each(|x| containers(x, out));
		}
		Value::Object(ob) => {
			out.push(v);
			ob.iter().for_each(|e| containers(&e.value, out));
		}
		_ => (),
	}
}

/// The value holds strings / keys from every escaping class (each control character on its own); the width limit of the
/// kind of one of its containers is set within a few columns of that container's one-line width (measured by printing
/// it with the same spacing and no limits - used only to aim the input, the expected text comes from the specification).
fn boundary_case(rng: &mut Rng, g: &ValueGen) -> (Value, Options) {
	let mut g2 = rich_gen();
	let c = char::from_u32(rng.below(0x21) as u32).unwrap();
	let odd = ["\u{7f}", "\u{80}", "\u{e9}", "\u{2028}", "\u{10000}", "\"", "\\", "/"][rng.below(8)];
	g2.strings = vec![c.to_string(), format!("a{c}"), format!("{c}{c}"), odd.to_string(), "ab".into()];
	g2.keys = vec![c.to_string(), "k".into(), odd.into(), format!("{c}x")];
	let _ = g;
	let d = 1 + rng.below(3);
	let v = g2.value(rng, d);
	let mut o = random_options(rng);
	let mut cs = vec![];
	containers(&v, &mut cs);
	if !cs.is_empty() {
		let target = cs[rng.below(cs.len())];
		let mut free = o.clone();
		free.array_limit = None;
		free.object_limit = None;
		if let Ok(line) = guarded(|| target.print_with(free).to_string()) {
			let w = line.chars().count() as i64 + rng.range(-7, 2);
			let w = w.max(0) as usize;
			let lim = if rng.chance(2, 3) { Limit::Width(w) } else { Limit::ItemOrWidth(1 + rng.below(4), w) };
			if target.is_array() {
				o.array_limit = Some(lim);
				if rng.chance(1, 2) {
					o.object_limit = None;
				}
			} else {
				o.object_limit = Some(lim);
				if rng.chance(1, 2) {
					o.array_limit = None;
				}
			}
		}
	}
	(v, o)
}

/// impl -> spec: random values x random option records; record (v, o, text, reparse)
pub fn record(args: &Args) {
	let n = args.num("n", 200);
	let out = args.get("out").unwrap_or_else(|| tool_error("record-print: --out required"));
	let mut rng = Rng::new(seed() ^ 0x9417);
	let g = rich_gen();
	let mut lines = vec![];
	for i in 0..n {
		let (v, o) = match if i % 125 == 13 || i % 125 == 14 { 100 + i % 125 } else if i % 25 == 13 || i % 25 == 14 { 0 } else { i % 25 } {
			// a spine nested deep enough for the indentation to pass 32 / 64 columns, every ancestor expanded
			7 | 19 => deep_case(&mut rng, &g),
			// spacing fields and indent units far beyond the usual 0..3 (16, 31..33, 63..65, 100)
			11 => big_spacing_case(&mut rng, &g),
			// a width limit placed within a few columns of the real one-line width of some container of the value
			3 | 9 | 15 | 21 => boundary_case(&mut rng, &g),
			// long strings / keys (beyond 32, 251 and 256 bytes) mixing escapes and multi-byte characters, some of them
			// "balanced": the extra bytes of the multi-byte characters equal the extra characters of the escapes
			5 | 17 => long_string_case(&mut rng),
			// many containers (more than 64), printed expanded and then - next event, same thread - compact
			113 => many_containers_case(&mut rng, false),
			114 => many_containers_case(&mut rng, true),
			_ => {
				let v = g.value(&mut rng, 1 + i % 4);
				let o = match i % 10 {
					0 => Options::compact(),
					1 => Options::pretty(),
					2 => Options::inline(),
					_ => random_options(&mut rng),
				};
				(v, o)
			}
		};
		if i % 4 == 1 {
			disturb_print();
		}
		let text = guarded(|| v.print_with(o.clone()).to_string());
		if i % 3 == 0 {
			crate::parsev::disturb();
		}
		let rec = match text {
			Ok(t) => {
				let back = match guarded(|| Value::parse_str(&t)) {
					Ok(Ok((b, _))) => project(&b),
					Ok(Err(e)) => json!({"t": "parse_error", "msg": e.to_string()}),
					Err(p) => json!({"t": "panic", "msg": p}),
				};
				json!({"ev": "print", "v": project(&v), "o": options_j(&o), "text": str_to_cps(&t), "back": back})
			}
			Err(p) => json!({"ev": "print", "v": project(&v), "o": options_j(&o), "text": [], "back": {"t": "panic", "msg": p}}),
		};
		lines.push(rec);
	}
	use std::io::Write;
	let mut f = std::fs::File::create(out).unwrap_or_else(|e| tool_error(&format!("create {out}: {e}")));
	for l in &lines {
		writeln!(f, "{}", l).unwrap();
	}
	println!("SUMMARY {}", json!({"events": lines.len(), "samples": lines.iter().skip(3).take(2).collect::<Vec<_>>()}));
}

/// deep expanded spines (MC_Deep): the closed form (line i indented by i units) was validated by TLC for small depths
pub fn replay_deepprint(rep: &mut Report, rec: &J) {
	rep.count("deep_vectors");
	let depth = rec["depth"].as_u64().unwrap() as usize;
	let arr = rec["kind"] == "arr";
	let o = options(&rec["o"]);
	let unit: String = match (rec["unit"][0].as_str().unwrap(), rec["unit"][1].as_u64().unwrap() as usize) {
		("spaces", n) => " ".repeat(n),
		(_, n) => "\t".repeat(n),
	};
	let keypart = cps_to_string(&rec["keypart"]).unwrap();
	let (open, close) = if arr { ('[', ']') } else { ('{', '}') };
	// the value (built bottom-up, iteratively) and the closed form
	let mut v = Value::Number(1u8.into());
	for _ in 0..depth {
		v = if arr { Value::Array(vec![v]) } else { Value::Object(vec![json_syntax::object::Entry::new("k".into(), v)].into_iter().collect()) };
	}
	let mut exp = String::new();
	for i in 0..depth {
		for _ in 0..i {
			exp.push_str(&unit);
		}
		if i > 0 {
			exp.push_str(&keypart);
		}
		exp.push(open);
		exp.push('\n');
	}
	for _ in 0..depth {
		exp.push_str(&unit);
	}
	if depth > 0 {
		exp.push_str(&keypart);
	}
	exp.push('1');
	for i in (0..depth).rev() {
		exp.push('\n');
		for _ in 0..i {
			exp.push_str(&unit);
		}
		exp.push(close);
	}
	let ctx = json!({"kind": rec["kind"], "unit": rec["unit"], "depth": depth, "expected_len": exp.len(), "vector": rec});
	rep.count("print_calls");
	match guarded(|| v.print_with(o.clone()).to_string()) {
		Err(p) => {
			rep.mismatch("C13.panic", json!({"what": "printer panicked on a deep expanded value", "input": ctx, "panic": p}));
			rep.mismatch("C04.panic", json!({"what": "printer panicked on a deep expanded value", "input": ctx, "panic": p}));
		}
		Ok(got) => {
			if got != exp {
				let at = got.bytes().zip(exp.bytes()).position(|(a, b)| a != b).unwrap_or(got.len().min(exp.len()));
				rep.mismatch("C13.deep", json!({"what": "printed text of a deep expanded value differs from the closed form validated by the specification", "input": ctx, "printed_len": got.len(), "first_difference_at": at}));
			}
			match guarded(|| Value::parse_str(&got)) {
				Ok(Ok((back, _))) if back == v => std::mem::forget(back),
				_ => rep.mismatch("C04.deep", json!({"what": "printed deep value does not parse back to itself", "input": ctx})),
			}
		}
	}
	// dropping a deep value is recursive (outside the properties): leak it
	std::mem::forget(v);
	rep.note_distinct(hash_of(&(rec["kind"].to_string(), rec["unit"].to_string(), depth)));
}

/// wide values: the closed form head + unit^(n-1) + tail was validated by TLC for small n
pub fn replay_wide(rep: &mut Report, rec: &J) {
	rep.count("wide_vectors");
	let n = rec["n"].as_u64().unwrap() as usize;
	let item = build(&rec["item"]).unwrap_or_else(|e| tool_error(&e));
	let v = if rec["kind"] == "arr" {
		Value::Array(vec![item; n])
	} else {
		let k = cps_to_string(&rec["key"]).unwrap();
		Value::Object((0..n).map(|_| json_syntax::object::Entry::new(k.as_str().into(), item.clone())).collect())
	};
	let o = options(&rec["o"]);
	let part = |k: &str| cps_to_string(&rec[k]).unwrap();
	let mut exp = part("head");
	let unit = part("unit");
	for _ in 1..n {
		exp.push_str(&unit);
	}
	exp.push_str(&part("tail"));
	let ctx = json!({"family": rec["name"], "n": n, "vector": rec});
	let got = match guarded(|| v.print_with(o.clone()).to_string()) {
		Ok(s) => s,
		Err(p) => {
			rep.mismatch("C13.panic", json!({"what": "printer panicked on a wide value", "input": ctx, "panic": p}));
			return;
		}
	};
	rep.count("print_calls");
	let is_compact = is_documented_compact(&o);
	if got != exp {
		let at = got.bytes().zip(exp.bytes()).position(|(a, b)| a != b).unwrap_or(got.len().min(exp.len()));
		let d = json!({"what": "printed text of a wide value differs from the closed form validated by the specification", "input": ctx, "printed_len": got.len(), "expected_len": exp.len(),
			"first_difference_at": at, "printed_there": got.chars().skip(at.saturating_sub(5)).take(30).collect::<String>()});
		rep.mismatch(if is_compact { "C08.wide" } else { "C13.wide" }, d);
	}
	if is_compact && (v.to_string() != exp) {
		rep.mismatch("C08.wide", json!({"what": "Display of a wide value differs from the minimal serialization", "input": ctx}));
	}
	match guarded(|| Value::parse_str(&got)) {
		Ok(Ok((back, _))) if back == v => (),
		_ => rep.mismatch("C04.wide", json!({"what": "printed wide value does not parse back to itself", "input": ctx})),
	}
	rep.note_distinct(hash_of(&(rec["name"].to_string(), n)));
	rep.samples.push(json!({"family": rec["name"], "n": n}));
	rep.samples.truncate(6);
}
