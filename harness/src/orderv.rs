//! C14 impl -> spec: record ==, cmp, partial_cmp and hash on all pairs of a domain.
use crate::gen::ValueGen;
use crate::proj::project;
use crate::util::*;
use json_syntax::Value;
use serde_json::{json, Value as J};
use std::cmp::Ordering;
use std::collections::HashMap;
use std::hash::{Hash, Hasher};

struct Fnv(u64);
impl Hasher for Fnv {
	fn finish(&self) -> u64 {
		self.0
	}
	fn write(&mut self, bytes: &[u8]) {
		for b in bytes {
			self.0 = (self.0 ^ *b as u64).wrapping_mul(0x100000001b3);
		}
	}
}

fn ord(o: Ordering) -> i64 {
	match o {
		Ordering::Less => -1,
		Ordering::Equal => 0,
		Ordering::Greater => 1,
	}
}

fn classes(hs: &[u64]) -> Vec<usize> {
	let mut m = HashMap::new();
	hs.iter()
		.map(|h| {
			let n = m.len();
			*m.entry(*h).or_insert(n)
		})
		.collect()
}

/// the same value, physically different: spilled-and-shrunk string buffers, spare capacity, an index with history
fn reshape(v: &Value) -> Value {
	match v {
		Value::String(s) => {
			let mut t: json_syntax::String = "a long filler that forces the small string onto the heap".into();
			t.clear();
			t.push_str(s.as_str());
			Value::String(t)
		}
		Value::Array(a) => {
			let mut b = Vec::with_capacity(a.len() + 37);
			b.extend(a.iter().map(reshape));
			Value::Array(b)
		}
		Value::Object(o) => {
			let mut n = json_syntax::Object::new();
			for i in 0..20 {
				n.push(format!("filler{i}").as_str().into(), Value::Null);
			}
			for e in o.iter() {
				let mut k: json_syntax::object::Key = "another long filler that forces the key onto the heap".into();
				k.clear();
				k.push_str(e.key.as_str());
				n.push(k, reshape(&e.value));
			}
			for i in 0..20 {
				let _ = n.remove(format!("filler{i}").as_str()).count();
			}
			Value::Object(n)
		}
		other => other.clone(),
	}
}

pub fn record(args: &Args) {
	let domains = args.num("domains", 3);
	let size = args.num("size", 40);
	let out = args.get("out").unwrap_or_else(|| tool_error("record-order: --out required"));
	let mut rng = Rng::new(seed() ^ 0x04de4);
	let g = ValueGen::small();
	let mut lines = vec![];
	for d in 0..domains {
		let mut vals: Vec<Value> = vec![];
		let nums = ["0", "-0", "0.0", "-0.0", "0e0", "1", "-1", "2", "9", "10", "-10", "1e1", "1E1", "10.0", "1.0e1", "2.5", "100", "99", "1e2",
			"9007199254740992", "9007199254740993", "9223372036854775807", "9223372036854775808", "-9223372036854775808", "-9223372036854775809",
			"18446744073709551615", "18446744073709551616", "1e400", "-1e400", "1e-400", "0.1", "0.10", "1.5", "15e-1"];
		let strs = ["", "a", "b", "ab", "B", "\u{e9}", "\u{ffff}", "\u{10000}", "\u{e000}", "a\u{0}", "aa"];
		let num = |n: &str| Value::Number(json_syntax::NumberBuf::new(n.as_bytes().into()).unwrap());
		if d == 3 || d == 7 {
			// a domain of numbers whose lexical, numeric and length orders all disagree, equal values under different
			// spellings, 64-bit and double boundaries: every one bare AND as the value of the same member (all pairs of
			// the same shape are compared)
			for n in nums.iter() {
				vals.push(num(n));
				vals.push(Value::Object(vec![json_syntax::object::Entry::new("n".into(), num(n))].into_iter().collect()));
			}
			rng.shuffle(&mut vals);
		}
		if d == 2 || d == 6 {
			// strings / keys whose byte, code-point, UTF-16 and length orders disagree: as a string, as a key (alone and
			// after a common first entry), inside an array; plus a few numbers inside arrays
			for s in strs.iter() {
				vals.push(Value::String((*s).into()));
				vals.push(Value::Object(vec![json_syntax::object::Entry::new((*s).into(), Value::Null)].into_iter().collect()));
				vals.push(Value::Object(vec![json_syntax::object::Entry::new("a".into(), Value::Null), json_syntax::object::Entry::new((*s).into(), Value::Boolean(true))].into_iter().collect()));
				vals.push(Value::Array(vec![Value::String((*s).into()), Value::Null]));
			}
			for n in ["9", "10", "1e1", "-0", "0", "2.5"] {
				vals.push(Value::Array(vec![num(n)]));
			}
			rng.shuffle(&mut vals);
		}
		while vals.len() < size {
			let base = if d % 2 == 0 { Value::Object(g.object(&mut rng, 1)) } else { g.value(&mut rng, 2) };
			let near = g.near_copies(&mut rng, &base);
			vals.push(base);
			for n in near {
				if vals.len() < size {
					vals.push(n)
				}
			}
		}
		// some of them nested under arrays (ordering of containers is lexicographic on children)
		for i in 0..vals.len() {
			if d % 4 < 2 && rng.chance(1, 5) {
				vals[i] = Value::Array(vec![vals[i].clone()]);
			}
		}
		// twins: values with the same content but another physical shape (a string / key buffer that has spilled to the heap
		// and shrunk back, vectors with spare capacity, an object rebuilt after removals)
		let twins: Vec<Value> = vals.iter().take(5).map(|v| reshape(v)).collect();
		vals.extend(twins);
		let n = vals.len();
		let eq: Vec<Vec<bool>> = (0..n).map(|i| (0..n).map(|j| vals[i] == vals[j]).collect()).collect();
		let cmp: Vec<Vec<i64>> = (0..n).map(|i| (0..n).map(|j| ord(vals[i].cmp(&vals[j]))).collect()).collect();
		let pcmp: Vec<Vec<i64>> = (0..n).map(|i| (0..n).map(|j| vals[i].partial_cmp(&vals[j]).map(ord).unwrap_or(9)).collect()).collect();
		// the derived comparison operators (ne lt le gt ge, max/min) and the Object-level impls must say what cmp says:
		// bit 0 ne, 1 lt, 2 le, 3 gt, 4 ge, 5 max is the greater, 6 min is the lesser, 7 objects agree with their Values
		let rel: Vec<Vec<u64>> = (0..n)
			.map(|i| {
				(0..n)
					.map(|j| {
						let (a, b) = (&vals[i], &vals[j]);
						let mut m = 0u64;
						m |= (a != b) as u64;
						m |= ((a < b) as u64) << 1;
						m |= ((a <= b) as u64) << 2;
						m |= ((a > b) as u64) << 3;
						m |= ((a >= b) as u64) << 4;
						m |= ((a.clone().max(b.clone()) == *(if a.cmp(b) == Ordering::Greater { a } else { b })) as u64) << 5;
						m |= ((a.clone().min(b.clone()) == *(if a.cmp(b) == Ordering::Greater { b } else { a })) as u64) << 6;
						let objs_ok = match (a.as_object(), b.as_object()) {
							(Some(x), Some(y)) => (x == y) == (a == b) && x.cmp(y) == a.cmp(b) && x.partial_cmp(y) == Some(a.cmp(b)) && (hash_of(x) == hash_of(y)) == (hash_of(a) == hash_of(b)),
							_ => true,
						};
						m |= (objs_ok as u64) << 7;
						m
					})
					.collect()
			})
			.collect();
		let h1: Vec<u64> = vals.iter().map(|v| hash_of(v)).collect();
		let h2: Vec<u64> = vals
			.iter()
			.map(|v| {
				let mut h = Fnv(0xcbf29ce484222325);
				v.hash(&mut h);
				h.finish()
			})
			.collect();
		lines.push(json!({"ev": "order", "vals": vals.iter().map(project).collect::<Vec<_>>(), "eq": eq, "cmp": cmp, "pcmp": pcmp, "rel": rel,
			"h1": classes(&h1), "h2": classes(&h2)}));
	}
	use std::io::Write;
	let mut f = std::fs::File::create(out).unwrap_or_else(|e| tool_error(&format!("create {out}: {e}")));
	for l in &lines {
		writeln!(f, "{}", l).unwrap();
	}
	let sample: Vec<J> = lines[0]["vals"].as_array().unwrap().iter().take(4).cloned().collect();
	println!("SUMMARY {}", json!({"events": lines.len(), "pairs": domains * size * size, "samples": [{"domain_prefix": sample}]}));
}
