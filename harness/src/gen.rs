//! Generators of JSON values (seeded) used by the recorders.
use crate::util::Rng;
use json_syntax::object::Entry;
use json_syntax::{Object, Value};

pub struct ValueGen {
	pub keys: Vec<String>,
	pub strings: Vec<String>,
	pub numbers: Vec<String>,
	pub max_children: usize,
	/// also draw number spellings from the RFC 8259 number grammar
	pub grammar_numbers: bool,
}

/// a random spelling derived from the grammar  [-] int [frac] [exp]
pub fn number_spelling(rng: &mut Rng) -> String {
	let mut s = String::new();
	if rng.chance(1, 3) {
		s.push('-');
	}
	if rng.chance(1, 4) {
		s.push('0');
	} else {
		s.push((b'1' + rng.below(9) as u8) as char);
		for _ in 0..rng.below(4) {
			s.push((b'0' + rng.below(10) as u8) as char);
		}
	}
	if rng.chance(1, 2) {
		s.push('.');
		for _ in 0..1 + rng.below(4) {
			s.push((b'0' + rng.below(10) as u8) as char);
		}
	}
	if rng.chance(1, 2) {
		s.push(if rng.chance(1, 2) { 'e' } else { 'E' });
		match rng.below(3) {
			0 => s.push('+'),
			1 => s.push('-'),
			_ => (),
		}
		for _ in 0..1 + rng.below(3) {
			s.push((b'0' + rng.below(10) as u8) as char);
		}
	}
	s
}

impl ValueGen {
	pub fn small() -> Self {
		ValueGen {
			keys: vec!["a".into(), "b".into(), "c".into()],
			strings: vec!["".into(), "x".into(), "y".into()],
			numbers: vec!["0".into(), "1".into(), "2".into()],
			max_children: 3,
			grammar_numbers: false,
		}
	}

	pub fn leaf(&self, rng: &mut Rng) -> Value {
		match rng.below(6) {
			0 => Value::Null,
			1 => Value::Boolean(rng.chance(1, 2)),
			2 => Value::String(rng.pick(&self.strings).as_str().into()),
			3 if self.grammar_numbers => Value::Number(json_syntax::NumberBuf::new(number_spelling(rng).into_bytes().into()).unwrap()),
			_ => Value::Number(json_syntax::NumberBuf::new(rng.pick(&self.numbers).clone().into_bytes().into()).unwrap()),
		}
	}

	pub fn value(&self, rng: &mut Rng, depth: usize) -> Value {
		if depth == 0 || rng.chance(1, 3) {
			return self.leaf(rng);
		}
		let n = rng.below(self.max_children + 1);
		if rng.chance(1, 2) {
			Value::Array((0..n).map(|_| self.value(rng, depth - 1)).collect())
		} else {
			Value::Object((0..n).map(|_| Entry::new(rng.pick(&self.keys).as_str().into(), self.value(rng, depth - 1))).collect())
		}
	}

	pub fn object(&self, rng: &mut Rng, depth: usize) -> Object {
		let n = rng.below(self.max_children + 1);
		(0..n).map(|_| Entry::new(rng.pick(&self.keys).as_str().into(), self.value(rng, depth))).collect()
	}

	/// near-copies of `v`: one leaf / key / position / length changed
	pub fn near_copies(&self, rng: &mut Rng, v: &Value) -> Vec<Value> {
		let mut out = vec![];
		match v {
			Value::Object(o) => {
				let es: Vec<Entry> = o.iter().cloned().collect();
				if !es.is_empty() {
					out.push(Value::Object(es[..es.len() - 1].iter().cloned().collect())); // prefix
					let mut c = es.clone();
					let i = rng.below(c.len());
					c[i].value = self.leaf(rng); // one value changed
					out.push(Value::Object(c.into_iter().collect()));
					let mut c = es.clone();
					let i = rng.below(c.len());
					c[i].key = rng.pick(&self.keys).as_str().into(); // one key changed
					out.push(Value::Object(c.into_iter().collect()));
					let mut c = es.clone();
					c.reverse(); // order changed
					out.push(Value::Object(c.into_iter().collect()));
				}
				let mut c = es.clone();
				c.push(Entry::new(rng.pick(&self.keys).as_str().into(), self.leaf(rng))); // extension
				out.push(Value::Object(c.into_iter().collect()));
				// same entries through another construction history
				let mut h = Object::new();
				for e in es.iter().rev() {
					h.push_front(e.key.clone(), e.value.clone());
				}
				out.push(Value::Object(h));
			}
			Value::Array(a) => {
				if !a.is_empty() {
					out.push(Value::Array(a[..a.len() - 1].to_vec()));
					let mut c = a.clone();
					let i = rng.below(c.len());
					c[i] = self.leaf(rng);
					out.push(Value::Array(c));
				}
				let mut c = a.clone();
				c.push(self.leaf(rng));
				out.push(Value::Array(c));
			}
			_ => out.push(self.leaf(rng)),
		}
		out
	}
}
