//! Generators of JSON values (seeded) used by the recorders.
use crate::util::Rng;
use json_syntax::object::Entry;
use json_syntax::{Object, Value};

pub struct ValueGen {
	pub keys: Vec<String>,
	pub strings: Vec<String>,
	pub numbers: Vec<String>,
	pub max_children: usize,
	/// also draw number spellings from the RFC 8259 number grammar
	pub grammar_numbers: bool,
}

/// a random spelling derived from the grammar  [-] int [frac] [exp]
pub fn number_spelling(rng: &mut Rng) -> String {
	let mut s = String::new();
	if rng.chance(1, 3) {
		s.push('-');
	}
	if rng.chance(1, 4) {
		s.push('0');
	} else {
		s.push((b'1' + rng.below(9) as u8) as char);
		for _ in 0..rng.below(4) {
			s.push((b'0' + rng.below(10) as u8) as char);
		}
	}
	if rng.chance(1, 2) {
		s.push('.');
		for _ in 0..1 + rng.below(4) {
			s.push((b'0' + rng.below(10) as u8) as char);
		}
	}
	if rng.chance(1, 2) {
		s.push(if rng.chance(1, 2) { 'e' } else { 'E' });
		match rng.below(3) {
			0 => s.push('+'),
			1 => s.push('-'),
			_ => (),
		}
		for _ in 0..1 + rng.below(3) {
			s.push((b'0' + rng.below(10) as u8) as char);
		}
	}
	s
}

impl ValueGen {
	pub fn small() -> Self {
		ValueGen {
			keys: vec!["a".into(), "b".into(), "c".into()],
			strings: vec!["".into(), "x".into(), "y".into()],
			numbers: vec!["0".into(), "1".into(), "2".into()],
			max_children: 3,
			grammar_numbers: false,
		}
	}

	pub fn leaf(&self, rng: &mut Rng) -> Value {
		match rng.below(6) {
			0 => Value::Null,
			1 => Value::Boolean(rng.chance(1, 2)),
			2 => Value::String(rng.pick(&self.strings).as_str().into()),
			3 if self.grammar_numbers => Value::Number(json_syntax::NumberBuf::new(number_spelling(rng).into_bytes().into()).unwrap()),
			_ => Value::Number(json_syntax::NumberBuf::new(rng.pick(&self.numbers).clone().into_bytes().into()).unwrap()),
		}
	}

	pub fn value(&self, rng: &mut Rng, depth: usize) -> Value {
		if depth == 0 || rng.chance(1, 3) {
			return self.leaf(rng);
		}
		let n = rng.below(self.max_children + 1);
		if rng.chance(1, 2) {
			Value::Array((0..n).map(|_| self.value(rng, depth - 1)).collect())
		} else {
			Value::Object((0..n).map(|_| Entry::new(rng.pick(&self.keys).as_str().into(), self.value(rng, depth - 1))).collect())
		}
	}

	pub fn object(&self, rng: &mut Rng, depth: usize) -> Object {
		let n = rng.below(self.max_children + 1);
		(0..n).map(|_| Entry::new(rng.pick(&self.keys).as_str().into(), self.value(rng, depth))).collect()
	}

	/// near-copies of `v`: one leaf / key / position / length changed
	pub fn near_copies(&self, rng: &mut Rng, v: &Value) -> Vec<Value> {
		let mut out = vec![];
		match v {
			Value::Object(o) => {
				let es: Vec<Entry> = o.iter().cloned().collect();
				if !es.is_empty() {
					out.push(Value::Object(es[..es.len() - 1].iter().cloned().collect())); // prefix
					let mut c = es.clone();
					let i = rng.below(c.len());
					c[i].value = self.leaf(rng); // one value changed
					out.push(Value::Object(c.into_iter().collect()));
					let mut c = es.clone();
					let i = rng.below(c.len());
					c[i].key = rng.pick(&self.keys).as_str().into(); // one key changed
					out.push(Value::Object(c.into_iter().collect()));
					let mut c = es.clone();
					c.reverse(); // order changed
					out.push(Value::Object(c.into_iter().collect()));
				}
				let mut c = es.clone();
				c.push(Entry::new(rng.pick(&self.keys).as_str().into(), self.leaf(rng))); // extension
				out.push(Value::Object(c.into_iter().collect()));
				// same entries through another construction history
				let mut h = Object::new();
				for e in es.iter().rev() {
					h.push_front(e.key.clone(), e.value.clone());
				}
				out.push(Value::Object(h));
			}
			Value::Array(a) => {
				if !a.is_empty() {
					out.push(Value::Array(a[..a.len() - 1].to_vec()));
					let mut c = a.clone();
					let i = rng.below(c.len());
					c[i] = self.leaf(rng);
					out.push(Value::Array(c));
				}
				let mut c = a.clone();
				c.push(self.leaf(rng));
				out.push(Value::Array(c));
			}
			_ => out.push(self.leaf(rng)),
		}
		out
	}
}

/// Grammar-based generator of JSON *texts* (not values): random insignificant
/// whitespace, every escape form, raw multi-byte characters, surrogate pairs,
/// grammar-derived number spellings, duplicate keys, many distinct keys.
pub struct DocGen {
	pub key_pool: Vec<String>,
	pub max_children: usize,
}

impl DocGen {
	pub fn new() -> Self {
		DocGen {
			key_pool: vec!["a", "b", "k", "", "key", "\\u00e9", "\\n", "\u{e9}\u{10000}", "x1", "x2", "x3", "x4", "x5", "a"].into_iter().map(String::from).collect(),
			max_children: 5,
		}
	}

	pub fn ws(&self, rng: &mut Rng, out: &mut String) {
		match rng.below(8) {
			0 => out.push(' '),
			1 => out.push('\n'),
			2 => out.push_str("\t \r\n"),
			3 => out.push_str("  "),
			_ => (),
		}
	}

	pub fn string_body(&self, rng: &mut Rng, out: &mut String) {
		for _ in 0..rng.below(7) {
			match rng.below(14) {
				0 => out.push_str(*rng.pick(&["\\\"", "\\\\", "\\/", "\\b", "\\f", "\\n", "\\r", "\\t"])),
				1 => {
					// \uXXXX of a BMP non-surrogate scalar, random hex case
					let mut c = rng.below(0x10000) as u32;
					if (0xd800..0xe000).contains(&c) {
						c -= 0x800;
					}
					let h = format!("{:04x}", c);
					out.push_str("\\u");
					for ch in h.chars() {
						out.push(if rng.chance(1, 2) { ch.to_ascii_uppercase() } else { ch });
					}
				}
				2 => {
					// escaped surrogate pair of a random supplementary scalar
					let c = 0x10000 + rng.below(0x100000) as u32;
					let hi = 0xd800 + ((c - 0x10000) >> 10);
					let lo = 0xdc00 + ((c - 0x10000) & 0x3ff);
					out.push_str(&format!("\\u{:04X}\\u{:04x}", hi, lo));
				}
				3 => out.push(char::from_u32(0x80 + rng.below(0x780) as u32).unwrap()),
				4 => {
					let mut c = 0x800 + rng.below(0xf800) as u32;
					if (0xd800..0xe000).contains(&c) {
						c += 0x800;
					}
					out.push(char::from_u32(c).unwrap());
				}
				5 => out.push(char::from_u32(0x10000 + rng.below(0x100000) as u32).unwrap()),
				6 => out.push(*rng.pick(&['\u{7f}', '\u{2028}', '\u{2029}', '\u{feff}', '\u{fffd}', '\u{ffff}', '/', '\'', ' '])),
				_ => out.push((b'a' + rng.below(26) as u8) as char),
			}
		}
	}

	pub fn value(&self, rng: &mut Rng, depth: usize, out: &mut String) {
		let k = if depth == 0 { rng.below(5) } else { rng.below(8) };
		match k {
			0 => out.push_str("null"),
			1 => out.push_str(if rng.chance(1, 2) { "true" } else { "false" }),
			2 | 3 => out.push_str(&number_spelling(rng)),
			4 => {
				out.push('"');
				self.string_body(rng, out);
				out.push('"');
			}
			5 | 6 => {
				out.push('[');
				self.ws(rng, out);
				let n = rng.below(self.max_children + 1);
				for i in 0..n {
					if i > 0 {
						out.push(',');
						self.ws(rng, out);
					}
					self.value(rng, depth - 1, out);
					self.ws(rng, out);
				}
				out.push(']');
			}
			_ => {
				out.push('{');
				self.ws(rng, out);
				let n = rng.below(self.max_children + 3);
				for i in 0..n {
					if i > 0 {
						out.push(',');
						self.ws(rng, out);
					}
					out.push('"');
					if rng.chance(3, 4) {
						out.push_str(rng.pick(&self.key_pool[..]).as_str());
					} else {
						self.string_body(rng, out);
					}
					out.push('"');
					self.ws(rng, out);
					out.push(':');
					self.ws(rng, out);
					self.value(rng, depth - 1, out);
					self.ws(rng, out);
				}
				out.push('}');
			}
		}
	}

	pub fn doc(&self, rng: &mut Rng, depth: usize) -> String {
		let mut s = String::new();
		self.ws(rng, &mut s);
		self.value(rng, depth, &mut s);
		self.ws(rng, &mut s);
		s
	}

	/// one random edit: delete / insert / replace a character, or truncate
	pub fn damage(&self, rng: &mut Rng, doc: &str) -> String {
		let mut cs: Vec<char> = doc.chars().collect();
		let extra = ['"', '\\', ',', ':', '[', ']', '{', '}', '0', '1', '-', '+', '.', 'e', 'E', 'n', 't', 'f', 'u', ' ', '\n', 'x', '\u{c}', '\u{b}', '\u{a0}', '\u{feff}', '\u{0}', '\u{1f}', '/', 'a', 'D', '8', 'C'];
		if cs.is_empty() {
			return rng.pick(&extra).to_string();
		}
		let i = rng.below(cs.len());
		match rng.below(4) {
			0 => {
				cs.remove(i);
			}
			1 => cs.insert(i, *rng.pick(&extra)),
			2 => cs[i] = *rng.pick(&extra),
			_ => cs.truncate(i),
		}
		cs.into_iter().collect()
	}
}
