//! Messages.tla: what the crate's error values say (Display text, position / span accessors, error source).
//! Beyond the listed properties: deviations are reported under the extension aspect `X02.message`.
use crate::util::*;
use json_syntax::object::{Duplicate, Entry};
use json_syntax::parse::Error;
use json_syntax::{code_map::Mapped, Kind, KindSet, Unexpected, Value};
use locspan::Span;
use serde_json::{json, Value as J};
use std::error::Error as StdError;

#[derive(Debug)]
struct Custom(String);
impl std::fmt::Display for Custom {
	fn fmt(&self, f: &mut std::fmt::Formatter) -> std::fmt::Result {
		f.write_str(&self.0)
	}
}
impl StdError for Custom {}

fn pieces(j: &J) -> String {
	let mut s = String::new();
	for p in j.as_array().map(|a| a.as_slice()).unwrap_or(&[]) {
		match p {
			J::String(t) => s.push_str(t),
			J::Number(n) => s.push(char::from_u32(n.as_u64().unwrap_or(0xfffd) as u32).unwrap_or('\u{fffd}')),
			_ => tool_error("msg vector: piece"),
		}
	}
	s
}

fn kind_of(i: u64) -> Kind {
	[Kind::Null, Kind::Boolean, Kind::Number, Kind::String, Kind::Array, Kind::Object][(i - 1) as usize]
}

pub fn replay_msg(rep: &mut Report, rec: &J) {
	rep.count("msg_vectors");
	let exp = pieces(&rec["text"]);
	let u = |j: &J| j.as_u64().unwrap_or_else(|| tool_error("msg vector: number")) as usize;
	let observed: Result<J, String> = guarded(|| match rec["type"].as_str() {
		Some("parse") => {
			let e = &rec["e"];
			let span = |j: &J| Span::new(u(&j[0]), u(&j[1]));
			let err: Error<Custom> = match e["kind"].as_str() {
				Some("stream") => Error::Stream(u(&e["pos"]), Custom(pieces(&e["inner"]))),
				Some("unexpected") => Error::Unexpected(u(&e["pos"]), e["ch"].as_i64().filter(|c| *c >= 0).and_then(|c| char::from_u32(c as u32))),
				Some("utf8") => Error::InvalidUtf8(u(&e["pos"])),
				Some("invalid_cp") => Error::InvalidUnicodeCodePoint(span(&e["span"]), u(&e["cp"]) as u32),
				Some("missing_low") => Error::MissingLowSurrogate(span(&e["span"]), u(&e["high"]) as u16),
				Some("invalid_low") => Error::InvalidLowSurrogate(span(&e["span"]), u(&e["high"]) as u16, u(&e["low"]) as u32),
				_ => tool_error("msg vector: error kind"),
			};
			json!({"text": err.to_string(), "pos": err.position(), "span": [err.span().start(), err.span().end()], "source": err.source().is_some(),
				"source_text": err.source().map(|s| s.to_string())})
		}
		Some("unexpected") => {
			let mut set = KindSet::none();
			for k in rec["expected"].as_array().unwrap() {
				set |= kind_of(k.as_u64().unwrap());
			}
			let un = Unexpected { expected: set, found: kind_of(rec["found"].as_u64().unwrap()) };
			let plain = un.to_string();
			let m = Mapped::new(u(&rec["offset"]), un);
			json!({"text": m.to_string(), "plain": plain, "source": m.source().map(|s| s.to_string()), "offset": m.offset})
		}
		Some("duplicate") => {
			let key = pieces(&rec["key"]);
			let d = Duplicate(Entry::new(key.as_str().into(), Value::Null), Entry::new(key.as_str().into(), Value::Boolean(true)));
			json!({"text": d.to_string()})
		}
		Some("serde") => {
			let e = &rec["e"];
			let msg = pieces(&e["msg"]);
			let (text, via_custom) = if rec["side"] == "ser" {
				use json_syntax::SerializeError as E;
				let err = match e["variant"].as_str() {
					Some("custom") => E::Custom(msg.clone()),
					Some("non_string_key") => E::NonStringKey,
					_ => E::MalformedHighPrecisionNumber,
				};
				(err.to_string(), <E as serde::ser::Error>::custom(&msg).to_string())
			} else {
				use json_syntax::DeserializeError as E;
				let err = match e["variant"].as_str() {
					Some("custom") => E::Custom(msg.clone()),
					_ => E::NonStringKey,
				};
				(err.to_string(), <E as serde::de::Error>::custom(&msg).to_string())
			};
			json!({"text": text, "custom": via_custom, "msg": msg})
		}
		_ => tool_error("msg vector: type"),
	});
	rep.count("msg_calls");
	let bad = match &observed {
		Err(p) => Some(format!("rendering the error panicked: {p}")),
		Ok(o) => {
			if o["text"].as_str() != Some(exp.as_str()) {
				Some("the Display text of the error differs from the specified message".to_string())
			} else if rec["type"] == "parse" && (o["pos"] != rec["pos"] || o["span"] != rec["span"]) {
				Some("position() / span() differ from the specified accessors".to_string())
			} else if rec["type"] == "parse" && o["source"] != rec["source"] {
				Some("source() is present exactly for stream errors".to_string())
			} else if rec["type"] == "parse" && rec["source"] == true && o["source_text"].as_str() != Some(exp.as_str()) {
				Some("the source of a stream error is the error of the character source".to_string())
			} else if rec["type"] == "unexpected" && (o["plain"].as_str() != Some(exp.as_str()) || o["source"].as_str() != Some(exp.as_str()) || o["offset"] != rec["offset"]) {
				Some("Mapped<Unexpected> displays as / names as its source the kind mismatch it wraps".to_string())
			} else if rec["type"] == "serde" && o["custom"] != o["msg"] {
				Some("Error::custom(msg) does not display as msg".to_string())
			} else {
				None
			}
		}
	};
	if let Some(what) = bad {
		rep.mismatch("X02.message", json!({"what": what, "vector": rec, "expected_text": exp, "observed": observed.unwrap_or_else(|p| json!({"panic": p}))}));
	}
	rep.note_distinct(hash_of(&rec.to_string()));
	let n = rep.counters["msg_vectors"];
	rep.sample(97, n, || json!({"error": rec.get("e").cloned().unwrap_or_else(|| rec.clone()), "text": exp}));
}
