//! Shared helpers: PRNG, stream reading, mismatch report.
use serde_json::{json, Value as J};
use std::collections::BTreeMap;
use std::io::{BufRead, BufReader, Write};

/// xorshift64* PRNG (deterministic, seeded by VERIF_SEED).
pub struct Rng(pub u64);
impl Rng {
	pub fn new(seed: u64) -> Self {
		let mut s = seed ^ 0x9E37_79B9_7F4A_7C15;
		if s == 0 {
			s = 0x1234_5678_9ABC_DEF1;
		}
		let mut r = Rng(s);
		for _ in 0..8 {
			r.next();
		}
		r
	}
	pub fn next(&mut self) -> u64 {
		let mut x = self.0;
		x ^= x >> 12;
		x ^= x << 25;
		x ^= x >> 27;
		self.0 = x;
		x.wrapping_mul(0x2545_F491_4F6C_DD1D)
	}
	pub fn below(&mut self, n: usize) -> usize {
		if n == 0 {
			0
		} else {
			(self.next() % n as u64) as usize
		}
	}
	pub fn range(&mut self, lo: i64, hi: i64) -> i64 {
		lo + (self.next() % ((hi - lo + 1) as u64)) as i64
	}
	pub fn chance(&mut self, num: usize, den: usize) -> bool {
		self.below(den) < num
	}
	pub fn pick<'a, T>(&mut self, xs: &'a [T]) -> &'a T {
		&xs[self.below(xs.len())]
	}
	pub fn shuffle<T>(&mut self, xs: &mut [T]) {
		for i in (1..xs.len()).rev() {
			let j = self.below(i + 1);
			xs.swap(i, j);
		}
	}
}

pub fn seed() -> u64 {
	std::env::var("VERIF_SEED")
		.ok()
		.and_then(|s| s.parse::<i64>().ok())
		.map(|s| s as u64)
		.unwrap_or(1)
}

/// Iterate over the JSON records in a TLC output file: lines that are a JSON
/// string literal (as printed by `PrintT(ToJson(..))`) or plain NDJSON objects.
/// decode one line of a TLC output / NDJSON file into a record (None: not a record line)
pub fn decode_line(line: &str) -> Option<J> {
	if line.starts_with("\"{") {
		let inner: String = match serde_json::from_str(line) {
			Ok(s) => s,
			Err(e) => tool_error(&format!("malformed TLC record line: {e}: {}", &line[..line.len().min(200)])),
		};
		match serde_json::from_str(&inner) {
			Ok(v) => Some(v),
			Err(e) => tool_error(&format!("malformed TLC record: {e}: {}", &inner[..inner.len().min(200)])),
		}
	} else if line.starts_with('{') {
		match serde_json::from_str(line) {
			Ok(v) => Some(v),
			Err(e) => tool_error(&format!("malformed record: {e}")),
		}
	} else {
		None
	}
}

impl Report {
	/// merge the report of a worker thread into this one
	pub fn merge(&mut self, other: Report) {
		for (k, v) in other.counters {
			*self.counters.entry(k).or_insert(0) += v;
		}
		for (k, v) in other.mismatch_counts {
			*self.mismatch_counts.entry(k).or_insert(0) += v;
		}
		for (k, v) in other.mismatches {
			let e = self.mismatches.entry(k).or_default();
			for it in v {
				if e.len() < self.keep {
					e.push(it)
				}
			}
		}
		for s in other.samples {
			if self.samples.len() < 6 {
				self.samples.push(s)
			}
		}
		self.distinct.extend(other.distinct);
	}
}

pub fn for_each_record(path: &str, mut f: impl FnMut(J)) {
	let file = std::fs::File::open(path).unwrap_or_else(|e| tool_error(&format!("open {path}: {e}")));
	let reader = BufReader::with_capacity(1 << 20, file);
	for line in reader.lines() {
		let line = match line {
			Ok(l) => l,
			Err(e) => tool_error(&format!("read {path}: {e}")),
		};
		let rec: J = if line.starts_with("\"{") {
			let inner: String = match serde_json::from_str(&line) {
				Ok(s) => s,
				Err(e) => tool_error(&format!("malformed TLC record line: {e}: {}", &line[..line.len().min(200)])),
			};
			match serde_json::from_str(&inner) {
				Ok(v) => v,
				Err(e) => tool_error(&format!("malformed TLC record: {e}: {}", &inner[..inner.len().min(200)])),
			}
		} else if line.starts_with('{') {
			match serde_json::from_str(&line) {
				Ok(v) => v,
				Err(e) => tool_error(&format!("malformed record: {e}")),
			}
		} else {
			continue;
		};
		f(rec)
	}
}

pub fn tool_error(msg: &str) -> ! {
	eprintln!("TOOL-ERROR: {msg}");
	std::process::exit(2)
}

pub fn cps_to_string(cps: &J) -> Option<String> {
	let mut s = String::new();
	for c in cps.as_array()? {
		s.push(char::from_u32(c.as_u64()? as u32)?);
	}
	Some(s)
}

pub fn str_to_cps(s: &str) -> J {
	J::Array(s.chars().map(|c| json!(c as u32)).collect())
}

pub fn show(s: &str) -> String {
	s.chars().flat_map(|c| c.escape_default()).collect()
}

/// Collected mismatches, grouped by aspect; every aspect belongs to a property.
#[derive(Default)]
pub struct Report {
	pub counters: BTreeMap<String, u64>,
	pub mismatches: BTreeMap<String, Vec<J>>,
	pub mismatch_counts: BTreeMap<String, u64>,
	pub samples: Vec<J>,
	pub distinct: std::collections::HashSet<u64>,
	pub keep: usize,
}

impl Report {
	pub fn new() -> Self {
		Report { keep: 50, ..Default::default() }
	}
	pub fn count(&mut self, k: &str) {
		*self.counters.entry(k.to_string()).or_insert(0) += 1;
	}
	pub fn add(&mut self, k: &str, n: u64) {
		*self.counters.entry(k.to_string()).or_insert(0) += n;
	}
	/// Record a mismatch for `aspect` (e.g. "C01.verdict").
	pub fn mismatch(&mut self, aspect: &str, detail: J) {
		*self.mismatch_counts.entry(aspect.to_string()).or_insert(0) += 1;
		let v = self.mismatches.entry(aspect.to_string()).or_default();
		if v.len() < self.keep {
			v.push(detail);
		}
	}
	pub fn sample(&mut self, every: u64, n: u64, v: impl FnOnce() -> J) {
		if self.samples.len() < 6 && n % every == 0 {
			self.samples.push(v());
		}
	}
	pub fn note_distinct(&mut self, h: u64) {
		self.distinct.insert(h);
	}
	/// Write the mismatch file (if any) and print the summary line.
	pub fn finish(self, out: Option<&str>) {
		let total: u64 = self.mismatch_counts.values().sum();
		if let Some(out) = out {
			let mut f = std::fs::File::create(out).unwrap_or_else(|e| tool_error(&format!("create {out}: {e}")));
			for (aspect, items) in &self.mismatches {
				for it in items {
					writeln!(f, "{}", json!({"aspect": aspect, "detail": it})).unwrap();
				}
			}
		}
		let summary = json!({
			"counters": self.counters,
			"mismatch_counts": self.mismatch_counts,
			"mismatches_total": total,
			"distinct": self.distinct.len(),
			"samples": self.samples,
		});
		println!("SUMMARY {}", summary);
	}
}

pub fn hash_of(v: &impl std::hash::Hash) -> u64 {
	use std::hash::Hasher;
	let mut h = std::collections::hash_map::DefaultHasher::new();
	v.hash(&mut h);
	h.finish()
}

/// Hang detection.  Every call into the code under test goes through `guarded`; a watcher thread reports a call
/// that has not returned within JSV_HANG_S seconds (default 30) as `HANG {json}` on stdout and ends the process
/// with exit code 98: non-termination of the code under test is data (the specification gives every call a result).
pub mod watchdog {
	use std::cell::Cell;
	use std::sync::atomic::{AtomicU64, AtomicUsize, Ordering};
	use std::sync::{Mutex, OnceLock};
	use std::time::{Duration, Instant};

	const MAX: usize = 64;
	pub struct Slot {
		since: AtomicU64,
		/// start of the processing of the current record as a whole (harness code included): a far more generous budget,
		/// for calls into the code under test that are not individually guarded
		outer: AtomicU64,
		ctx: Mutex<String>,
	}
	static SLOTS: OnceLock<Vec<Slot>> = OnceLock::new();
	static NEXT: AtomicUsize = AtomicUsize::new(0);
	static T0: OnceLock<Instant> = OnceLock::new();
	thread_local! {
		static MY: usize = NEXT.fetch_add(1, Ordering::Relaxed) % MAX;
		static DEPTH: Cell<u32> = Cell::new(0);
	}
	fn slots() -> &'static Vec<Slot> {
		SLOTS.get_or_init(|| (0..MAX).map(|_| Slot { since: AtomicU64::new(0), outer: AtomicU64::new(0), ctx: Mutex::new(String::new()) }).collect())
	}
	/// The watchdog's clock counts only time in which the machine was making progress: the watchdog thread advances it
	/// on every tick by the time that passed, capped at twice the tick (a watchdog that itself was not scheduled for
	/// seconds says the machine stalled, not the code under test), minus the time tasks spent stalled on memory
	/// (/proc/pressure/memory) - another process exhausting the memory freezes every call for tens of seconds.
	static CLOCK: AtomicU64 = AtomicU64::new(1);
	fn now_ms() -> u64 {
		CLOCK.load(Ordering::Relaxed)
	}
	fn memory_stall_us() -> Option<u64> {
		let s = std::fs::read_to_string("/proc/pressure/memory").ok()?;
		s.lines().find(|l| l.starts_with("some"))?.split("total=").nth(1)?.trim().parse().ok()
	}
	pub fn enter() {
		DEPTH.with(|d| {
			if d.get() == 0 {
				MY.with(|i| slots()[*i].since.store(now_ms(), Ordering::Relaxed));
			}
			d.set(d.get() + 1);
		});
	}
	pub fn leave() {
		DEPTH.with(|d| {
			d.set(d.get().saturating_sub(1));
			if d.get() == 0 {
				MY.with(|i| slots()[*i].since.store(0, Ordering::Relaxed));
			}
		});
	}
	/// the current thread starts / finishes processing one record
	pub fn record_begin() {
		MY.with(|i| slots()[*i].outer.store(now_ms(), Ordering::Relaxed));
	}
	pub fn record_end() {
		MY.with(|i| slots()[*i].outer.store(0, Ordering::Relaxed));
	}
	/// what this thread is working on (a vector line, an event description): printed if a call hangs
	pub fn set_context(s: &str) {
		MY.with(|i| {
			let mut c = slots()[*i].ctx.lock().unwrap();
			c.clear();
			c.push_str(s);
		});
	}
	pub fn start() {
		let limit = std::env::var("JSV_HANG_S").ok().and_then(|s| s.parse::<u64>().ok()).unwrap_or(30);
		if limit == 0 {
			return;
		}
		T0.get_or_init(Instant::now);
		std::thread::spawn(move || {
			let mut last = Instant::now();
			let mut stall = memory_stall_us();
		loop {
			std::thread::sleep(Duration::from_millis(250));
			let passed = last.elapsed().as_millis() as u64;
			last = Instant::now();
			let stall_now = memory_stall_us();
			let stalled_ms = match (stall, stall_now) {
				(Some(a), Some(b)) => b.saturating_sub(a) / 1000,
				_ => 0,
			};
			stall = stall_now;
			CLOCK.fetch_add(passed.min(500).saturating_sub(stalled_ms), Ordering::Relaxed);
			let now = now_ms();
			for s in slots() {
				let t = s.since.load(Ordering::Relaxed);
				let o = s.outer.load(Ordering::Relaxed);
				if (t != 0 && now.saturating_sub(t) > limit * 1000) || (o != 0 && now.saturating_sub(o) > limit * 40 * 1000) {
					let ctx = s.ctx.lock().map(|c| c.clone()).unwrap_or_default();
					println!("HANG {}", serde_json::json!({"seconds": limit, "context": ctx}));
					use std::io::Write;
					let _ = std::io::stdout().flush();
					std::process::exit(98);
				}
			}
		}
		});
	}
}

/// Run `f` (a call into the code under test), turning a panic into `Err(message)`; watched by the hang detector.
pub fn guarded<T>(f: impl FnOnce() -> T) -> Result<T, String> {
	watchdog::enter();
	let r = std::panic::catch_unwind(std::panic::AssertUnwindSafe(f));
	watchdog::leave();
	match r {
		Ok(v) => Ok(v),
		Err(e) => Err(if let Some(s) = e.downcast_ref::<&str>() {
			s.to_string()
		} else if let Some(s) = e.downcast_ref::<String>() {
			s.clone()
		} else {
			"panic".to_string()
		}),
	}
}

pub struct Args {
	pub pos: Vec<String>,
	pub opts: BTreeMap<String, String>,
}

impl Args {
	pub fn parse(args: &[String]) -> Self {
		let mut pos = vec![];
		let mut opts = BTreeMap::new();
		let mut i = 0;
		while i < args.len() {
			if let Some(k) = args[i].strip_prefix("--") {
				if i + 1 < args.len() {
					opts.insert(k.to_string(), args[i + 1].clone());
					i += 2;
				} else {
					opts.insert(k.to_string(), String::new());
					i += 1;
				}
			} else {
				pos.push(args[i].clone());
				i += 1;
			}
		}
		Args { pos, opts }
	}
	pub fn get(&self, k: &str) -> Option<&str> {
		self.opts.get(k).map(|s| s.as_str())
	}
	pub fn num(&self, k: &str, default: usize) -> usize {
		self.get(k).and_then(|s| s.parse().ok()).unwrap_or(default)
	}
}

/// An iterator may be consumed in many ways; the provided methods (count, last, nth, fold, size_hint ...) can be
/// overridden by the implementation, so every route must see the elements that stepping with next() sees.
/// `mk` makes a fresh RAW iterator (adaptors such as `map` do not forward nth / count / last to the iterator they wrap,
/// so the methods are called on the iterator itself and the items are projected afterwards by `pj`).
/// Returns the first route that disagrees.
pub fn iter_routes<I: Iterator>(mk: &dyn Fn() -> I, pj: &dyn Fn(I::Item) -> J) -> Option<String> {
	let mut stepped = vec![];
	let mut it = mk();
	let (lo0, hi0) = it.size_hint();
	while let Some(x) = it.next() {
		stepped.push(pj(x));
		if stepped.len() > 1_000_000 {
			return Some("next() never ends".into());
		}
	}
	let n = stepped.len();
	if lo0 > n || hi0.map(|h| h < n).unwrap_or(false) {
		return Some(format!("size_hint ({lo0}, {hi0:?}) excludes the real length {n}"));
	}
	if mk().collect::<Vec<_>>().into_iter().map(pj).collect::<Vec<_>>() != stepped {
		return Some("collect".into());
	}
	if mk().count() != n {
		return Some("count".into());
	}
	if mk().last().map(pj) != stepped.last().cloned() {
		return Some("last".into());
	}
	if mk().fold(Vec::new(), |mut v, x| { v.push(pj(x)); v }) != stepped {
		return Some("fold".into());
	}
	let mut via_for = vec![];
	for x in mk() {
		via_for.push(pj(x));
	}
	if via_for != stepped {
		return Some("for loop".into());
	}
	for k in 0..n + 2 {
		let mut it = mk();
		if it.nth(k).map(pj) != stepped.get(k).cloned() {
			return Some(format!("nth({k})"));
		}
		// the iterator continues right after the element nth returned
		if k < n && it.next().map(pj) != stepped.get(k + 1).cloned() {
			return Some(format!("next() after nth({k})"));
		}
		// ... and is exhausted for good after an nth past its end
		if k >= n && (it.next().is_some() || it.size_hint().0 != 0 || it.count() != 0) {
			return Some(format!("the iterator yields again after nth({k}) went past its end"));
		}
		// nth on an iterator that has already yielded elements by next()
		for pre in 1..3usize {
			let mut it = mk();
			for _ in 0..pre {
				it.next();
			}
			if it.nth(k).map(pj) != stepped.get(pre + k).cloned() {
				return Some(format!("nth({k}) after {pre} x next()"));
			}
			if it.next().map(pj) != stepped.get(pre + k + 1).cloned() {
				return Some(format!("next() after nth({k}) after {pre} x next()"));
			}
		}
		if k >= 1 && mk().step_by(k).map(pj).collect::<Vec<_>>() != stepped.iter().step_by(k).cloned().collect::<Vec<_>>() {
			return Some(format!("step_by({k})"));
		}
		let mut it = mk();
		let a: Vec<J> = it.by_ref().take(k).map(pj).collect();
		let b: Vec<J> = it.map(pj).collect();
		if a.iter().chain(b.iter()).cloned().collect::<Vec<_>>() != stepped {
			return Some(format!("take({k}) then the rest"));
		}
		if mk().skip(k).map(pj).collect::<Vec<_>>() != stepped.iter().skip(k).cloned().collect::<Vec<_>>() {
			return Some(format!("skip({k})"));
		}
	}
	// skipping astronomically far leaves nothing (counters narrower than usize would wrap)
	for far in [usize::MAX, 1usize << 32, (1usize << 32) + 1, (1usize << 16) + 1, 256 + 1] {
		if far > n {
			if mk().nth(far).is_some() {
				return Some(format!("nth({far})"));
			}
			if far < usize::MAX && mk().skip(far).next().is_some() {
				return Some(format!("skip({far})"));
			}
		}
	}
	// size_hint stays consistent while stepping
	let mut it = mk();
	for left in (0..=n).rev() {
		let (lo, hi) = it.size_hint();
		if lo > left || hi.map(|h| h < left).unwrap_or(false) {
			return Some(format!("size_hint ({lo}, {hi:?}) with {left} elements left"));
		}
		it.next();
	}
	None
}
