//! Object conformance (C06, C14): replay of the graph model's transitions and
//! recording of long random histories for trace validation.
use crate::proj::string_of;
use crate::util::*;
use json_syntax::object::{Entry, Key};
use json_syntax::{Object, Value};
use serde_json::{json, Value as J};
use std::collections::HashMap;

fn val(n: &J) -> Value {
	Value::Number((n.as_u64().unwrap_or(0) as u32).into())
}

fn unval(v: &Value) -> J {
	match v {
		Value::Number(n) => json!(n.as_str().parse::<u64>().unwrap_or(u64::MAX)),
		_ => json!("non-number"),
	}
}

fn key(k: &J) -> Key {
	string_of(k).unwrap_or_else(|e| tool_error(&e)).into()
}

fn entry_j(e: &Entry) -> J {
	json!({"k": str_to_cps(e.key.as_str()), "v": unval(&e.value)})
}

fn entries_j<'a>(es: impl IntoIterator<Item = &'a Entry>) -> J {
	J::Array(es.into_iter().map(entry_j).collect())
}

fn owned_entries_j(es: Vec<Entry>) -> J {
	J::Array(es.iter().map(entry_j).collect())
}

fn build_entries(es: &J) -> Vec<Entry> {
	es.as_array().unwrap().iter().map(|e| Entry::new(key(&e["k"]), val(&e["v"]))).collect()
}

pub fn index_dump(o: &Object) -> J {
	let mut d = o.verif_index_dump();
	d.sort();
	J::Array(d.into_iter().map(|(rep, other)| json!([rep, other])).collect())
}

/// Apply one operation of the model to the real object; returns the result in
/// the shape of the specification's `ret`.  `salt` varies the API route used.
pub fn apply(o: &mut Object, op: &J, salt: usize) -> J {
	let name = op["op"].as_str().unwrap();
	let n = op["n"].as_u64().unwrap_or(99) as usize;
	let i = op["i"].as_u64().unwrap_or(0) as usize;
	match name {
		"push" => {
			let fresh = if salt % 2 == 0 { o.push(key(&op["k"]), val(&op["v"])) } else { o.push_entry(Entry::new(key(&op["k"]), val(&op["v"]))) };
			json!({"fresh": fresh})
		}
		"push_front" => {
			let fresh = if salt % 2 == 0 { o.push_front(key(&op["k"]), val(&op["v"])) } else { o.push_entry_front(Entry::new(key(&op["k"]), val(&op["v"]))) };
			json!({"fresh": fresh})
		}
		"remove_at" => match o.remove_at(i) {
			Some(e) => json!({"some": true, "val": entry_j(&e)}),
			None => json!({"some": false}),
		},
		"insert" => match o.insert(key(&op["k"]), val(&op["v"])) {
			Some(it) => {
				let got: Vec<Entry> = it.take(n).collect();
				json!({"some": true, "val": owned_entries_j(got)})
			}
			None => json!({"some": false}),
		},
		"insert_front" => {
			let got: Vec<Entry> = o.insert_front(key(&op["k"]), val(&op["v"])).take(n).collect();
			owned_entries_j(got)
		}
		"remove" => {
			let k = key(&op["k"]);
			let got: Vec<Entry> = o.remove(k.as_str()).take(n).collect();
			owned_entries_j(got)
		}
		"remove_unique" => {
			let k = key(&op["k"]);
			match o.remove_unique(k.as_str()) {
				Ok(None) => json!({"r": "none"}),
				Ok(Some(e)) => json!({"r": "one", "e": entry_j(&e)}),
				Err(d) => json!({"r": "dup", "e": entry_j(&d.0), "d": entry_j(&d.1)}),
			}
		}
		"sort" => {
			o.sort();
			json!({"some": false})
		}
		"from_vec" => {
			let es = build_entries(&op["es"]);
			*o = match salt % 5 {
				0 => Object::from_vec(es),
				1 => es.into_iter().collect(),
				2 => Object::from(es),
				3 => {
					// Default, then Extend
					let mut d = Object::default();
					d.extend(es);
					d
				}
				_ => es.into_iter().map(|e| (e.key, e.value)).collect(),
			};
			json!({"some": false})
		}
		"extend" => {
			let es = build_entries(&op["es"]);
			match salt % 5 {
				0 => o.extend(es),
				1 => o.extend(es.into_iter().map(|e| (e.key, e.value))),
				2 => {
					// an iterator whose size hint has an astronomically large upper bound (nothing may be sized by it)
					let mut it = es.into_iter();
					o.extend((0..usize::MAX).map_while(move |_| it.next()));
				}
				3 => {
					let mut it = es.into_iter();
					o.extend((0..usize::MAX).map_while(move |_| it.next().map(|e| (e.key, e.value))));
				}
				_ => {
					// the feeding iterator panics after its first entry; the panic is caught and the rest is added afterwards:
					// what was added before the panic must be fully usable
					let n = es.len();
					let first: Vec<Entry> = es.iter().take(1).cloned().collect();
					let rest: Vec<Entry> = es.iter().skip(if n == 0 { 0 } else { 1 }).cloned().collect();
					let r = std::panic::catch_unwind(std::panic::AssertUnwindSafe(|| {
						let mut k = 0;
						o.extend(first.into_iter().chain(std::iter::from_fn(|| -> Option<Entry> {
							k += 1;
							if k == 1 { std::panic::resume_unwind(Box::new("feeding iterator gave up")) } else { None }
						})));
					}));
					let _ = r;
					o.extend(rest);
				}
			}
			json!({"some": false})
		}
		"set_value" => {
			if i < o.len() {
				let k = o.entries()[i].key.clone();
				let occ = o.entries()[..i].iter().filter(|e| e.key == k).count();
				let newv = val(&op["v"]);
				let unique = o.entries().iter().filter(|e| e.key == k).count() == 1;
				let old = match salt % 5 {
					// through the accessors that hand out a mutable reference to the first / only value of a key
					3 if occ == 0 => std::mem::replace(o.get_mut_or_insert_with(k.as_str(), || Value::Null), newv),
					4 if unique => std::mem::replace(o.get_unique_mut(k.as_str()).ok().flatten().unwrap(), newv),
					0 | 3 => {
						let (_, v) = o.iter_mut().nth(i).unwrap();
						std::mem::replace(v, newv)
					}
					1 => {
						let v = o.get_mut(k.as_str()).nth(occ).unwrap();
						std::mem::replace(v, newv)
					}
					_ => {
						let (_, v) = (&mut *o).into_iter().nth(i).unwrap();
						std::mem::replace(v, newv)
					}
				};
				json!({"some": true, "val": unval(&old)})
			} else {
				json!({"some": false})
			}
		}
		"get_or_insert" => {
			let k = key(&op["k"]);
			let v = val(&op["v"]);
			let got = if salt % 2 == 0 { o.get_or_insert_with(k.as_str(), || v).clone() } else { o.get_mut_or_insert_with(k.as_str(), || v).clone() };
			json!({"v": unval(&got)})
		}
		"clone" => {
			// every route by which the standard library duplicates an object
			let c = match salt % 4 {
				0 => o.clone(),
				1 => match json_syntax::Value::Object(o.clone()).clone() {
					json_syntax::Value::Object(c) => c,
					_ => unreachable!(),
				},
				2 => vec![o.clone()].clone().pop().unwrap(),
				_ => o.iter().cloned().collect::<Vec<Entry>>().into_iter().collect(),
			};
			*o = c;
			json!({"some": false})
		}
		"clone_from" => {
			// Clone::clone_from into an object that already holds other entries (op.es), directly and through
			// the containers whose clone_from reuses their elements
			let junk = Object::from_vec(build_entries(&op["es"]));
			// every other time the target holds the SAME keys as the source in another order and with other values (a
			// clone_from that reuses the target's structure must still end up equal to the source)
			let junk = if salt % 2 == 1 && o.len() >= 2 {
				let mut es: Vec<Entry> = o.entries().iter().rev().map(|e| Entry::new(e.key.clone(), Value::Number(7u8.into()))).collect();
				if salt % 4 == 3 {
					es.rotate_left(1);
				}
				Object::from_vec(es)
			} else {
				junk
			};
			let c = match (salt / 2) % 4 {
				0 => {
					let mut t = junk;
					t.clone_from(o);
					t
				}
				1 => {
					let mut t = vec![junk];
					t.clone_from(&vec![o.clone()]);
					t.pop().unwrap()
				}
				2 => {
					let mut t = Some(junk);
					t.clone_from(&Some(o.clone()));
					t.unwrap()
				}
				_ => {
					let mut t = json_syntax::Value::Object(junk);
					t.clone_from(&json_syntax::Value::Object(o.clone()));
					match t {
						json_syntax::Value::Object(c) => c,
						_ => unreachable!(),
					}
				}
			};
			*o = c;
			json!({"some": false})
		}
		other => tool_error(&format!("unknown object op {other}")),
	}
}

/// Every key-based query must answer what a scan of `expected` entries answers.
pub fn check_queries(o: &mut Object, expected: &J, keys: &[String]) -> Option<J> {
	let es = expected.as_array().unwrap();
	if entries_j(o.iter()) != *expected || entries_j(o.entries()) != *expected || o.len() != es.len() || o.is_empty() != es.is_empty() {
		return Some(json!({"query": "iter/entries/len", "observed": entries_j(o.iter())}));
	}
	if o.first().map(entry_j) != es.first().cloned() || o.last().map(entry_j) != es.last().cloned() {
		return Some(json!({"query": "first/last"}));
	}
	{
		let ob: &Object = o;
		let routes: [(&str, Option<String>); 3] = [
			("iter", iter_routes(&|| ob.iter(), &|e| entry_j(e))),
			("&Object into_iter", iter_routes(&|| ob.into_iter(), &|e| entry_j(e))),
			("Object into_iter", iter_routes(&|| ob.clone().into_iter(), &|e| entry_j(&e))),
		];
		for (name, r) in routes {
			if let Some(route) = r {
				return Some(json!({"query": name, "route": route, "what": "consuming the iterator this way does not give the elements next() gives"}));
			}
		}
		let mut c = o.clone();
		let via_mut: Vec<J> = (&mut c).into_iter().map(|(k, v)| json!({"k": str_to_cps(k.as_str()), "v": unval(v)})).collect();
		let via_iter_mut: Vec<J> = c.iter_mut().map(|(k, v)| json!({"k": str_to_cps(k.as_str()), "v": unval(v)})).collect();
		if J::Array(via_mut) != *expected || J::Array(via_iter_mut) != *expected {
			return Some(json!({"query": "iter_mut / &mut into_iter"}));
		}
	}
	let owned: Vec<Entry> = o.clone().into_iter().collect();
	if owned_entries_j(owned) != *expected {
		return Some(json!({"query": "into_iter"}));
	}
	for k in keys {
		let kc = str_to_cps(k);
		let scan: Vec<usize> = es.iter().enumerate().filter(|(_, e)| e["k"] == kc).map(|(i, _)| i).collect();
		let vals: Vec<J> = scan.iter().map(|&i| es[i]["v"].clone()).collect();
		let ents: Vec<J> = scan.iter().map(|&i| es[i].clone()).collect();
		let k = k.as_str();
		macro_rules! chk {
			($name:expr, $obs:expr, $exp:expr) => {{
				let obs = json!($obs);
				let exp = json!($exp);
				if obs != exp {
					return Some(json!({"query": $name, "key": kc, "observed": obs, "scan": exp}));
				}
			}};
		}
		chk!("contains_key", o.contains_key(k), !scan.is_empty());
		chk!("index_of", o.index_of(k), scan.first());
		chk!("redundant_index_of", o.redundant_index_of(k), scan.get(1));
		chk!("indexes_of", o.indexes_of(k).collect::<Vec<_>>(), scan);
		chk!("get", o.get(k).map(unval).collect::<Vec<_>>(), vals);
		chk!("get_mut", o.get_mut(k).map(|v| unval(v)).collect::<Vec<_>>(), vals);
		chk!("get_entries", o.get_entries(k).map(entry_j).collect::<Vec<_>>(), ents);
		chk!("get_with_index", o.get_with_index(k).map(|(i, v)| json!([i, unval(v)])).collect::<Vec<_>>(), scan.iter().map(|&i| json!([i, es[i]["v"]])).collect::<Vec<_>>());
		chk!("get_entries_with_index", o.get_entries_with_index(k).map(|(i, e)| json!([i, entry_j(e)])).collect::<Vec<_>>(), scan.iter().map(|&i| json!([i, es[i]])).collect::<Vec<_>>());
		// every way of consuming the query iterators
		{
			let ob: &Object = o;
			let routes: [(&str, Option<String>); 5] = [
				("indexes_of", iter_routes(&|| ob.indexes_of(k), &|i| json!(i))),
				("get", iter_routes(&|| ob.get(k), &|v| unval(v))),
				("get_entries", iter_routes(&|| ob.get_entries(k), &|e| entry_j(e))),
				("get_with_index", iter_routes(&|| ob.get_with_index(k), &|(i, v)| json!([i, unval(v)]))),
				("get_entries_with_index", iter_routes(&|| ob.get_entries_with_index(k), &|(i, e)| json!([i, entry_j(e)]))),
			];
			for (name, r) in routes {
				if let Some(route) = r {
					return Some(json!({"query": name, "key": kc, "route": route, "what": "consuming the iterator this way does not give the elements next() gives"}));
				}
			}
		}
		let uniq = |r: Result<Option<J>, (J, J)>| match r {
			Ok(None) => json!("none"),
			Ok(Some(v)) => json!({"one": v}),
			Err((a, b)) => json!({"dup": [a, b]}),
		};
		let exp_u = |f: &dyn Fn(usize) -> J| match scan.len() {
			0 => json!("none"),
			1 => json!({"one": f(scan[0])}),
			_ => json!({"dup": [es[scan[0]], es[scan[1]]]}),
		};
		chk!("get_unique", uniq(o.get_unique(k).map(|x| x.map(unval)).map_err(|d| (entry_j(d.0), entry_j(d.1)))), exp_u(&|i| es[i]["v"].clone()));
		chk!("get_unique_entry", uniq(o.get_unique_entry(k).map(|x| x.map(entry_j)).map_err(|d| (entry_j(d.0), entry_j(d.1)))), exp_u(&|i| es[i].clone()));
		chk!("get_unique_mut", uniq(o.get_unique_mut(k).map(|x| x.map(|v| unval(v))).map_err(|d| (entry_j(d.0), entry_j(d.1)))), exp_u(&|i| es[i]["v"].clone()));
	}
	None
}

fn hash_obj(o: &Object) -> u64 {
	hash_of(o)
}

/// `o` is ==, Equal and hash-identical (as an Object and as a Value) to an object rebuilt from its entries
fn same_as_rebuilt(o: &Object) -> bool {
	let fresh = Object::from_vec(o.entries().to_vec());
	let mut pushed = Object::new();
	for e in o.entries() {
		pushed.push(e.key.clone(), e.value.clone());
	}
	let (va, vb) = (Value::Object(o.clone()), Value::Object(fresh.clone()));
	*o == fresh
		&& fresh == *o
		&& *o == pushed
		&& o.cmp(&fresh) == std::cmp::Ordering::Equal
		&& pushed.partial_cmp(o) == Some(std::cmp::Ordering::Equal)
		&& hash_obj(o) == hash_obj(&fresh)
		&& hash_obj(o) == hash_obj(&pushed)
		&& va == vb
		&& va.cmp(&vb) == std::cmp::Ordering::Equal
		&& hash_of(&va) == hash_of(&vb)
}

pub struct ObjState {
	/// first real object seen for each abstract entry list (C14: history independence)
	pub seen: HashMap<String, (Object, u64, String)>,
}

impl ObjState {
	pub fn new() -> Self {
		ObjState { seen: HashMap::new() }
	}
}

pub fn keys_of_vector(rec: &J) -> Vec<String> {
	let mut keys: Vec<String> = vec!["z\u{1}absent".to_string()];
	let mut add = |k: &J| {
		if let Ok(s) = string_of(k) {
			if !keys.contains(&s) {
				keys.push(s)
			}
		}
	};
	for e in rec["post"]["entries"].as_array().unwrap() {
		add(&e["k"]);
	}
	add(&rec["op"]["k"]);
	for h in rec["hist"].as_array().unwrap() {
		add(&h["k"]);
	}
	keys
}

pub fn replay_obj(rep: &mut Report, st: &mut ObjState, rec: &J) {
	rep.count("obj_vectors");
	let mut o = Object::new();
	// a twin that is observed (hashed, compared, cloned) after every step of the history: observation must not matter
	let mut twin = Object::new();
	let mut twin_ok = true;
	let hist = rec["hist"].as_array().unwrap();
	for (j, op) in hist.iter().enumerate() {
		if let Err(p) = guarded(|| apply(&mut o, op, j)) {
			rep.mismatch("C06.panic", json!({"what": "object operation panicked while replaying the access history", "vector": rec, "step": j, "panic": p}));
			return;
		}
		twin_ok &= guarded(|| {
			apply(&mut twin, op, j);
			same_as_rebuilt(&twin)
		})
		.unwrap_or(false);
	}
	let salt = hist.len() + rep.counters["obj_vectors"] as usize;
	// clone / clone_from (by whatever route, into whatever target) produce an object equal to the source
	let is_copy = matches!(rec["op"]["op"].as_str(), Some("clone") | Some("clone_from"));
	let before = if is_copy { Some((o.entries().to_vec(), hash_obj(&o))) } else { None };
	twin_ok &= guarded(|| {
		apply(&mut twin, &rec["op"], salt);
		same_as_rebuilt(&twin)
	})
	.unwrap_or(false);
	let ret = match guarded(|| apply(&mut o, &rec["op"], salt)) {
		Ok(r) => r,
		Err(p) => {
			rep.mismatch("C06.panic", json!({"what": "object operation panicked", "vector": rec, "panic": p}));
			return;
		}
	};
	rep.count("obj_calls");
	if let Some((es, h0)) = before {
		let src = Object::from_vec(es);
		if o != src || src != o || o.cmp(&src) != std::cmp::Ordering::Equal || hash_obj(&o) != h0 || Value::Object(o.clone()) != Value::Object(src.clone()) {
			rep.mismatch("C14.clone", json!({"what": "the object produced by clone / clone_from differs from its source (eq / cmp / hash)", "vector": rec,
				"observed": entries_j(o.iter()), "source": entries_j(src.iter())}));
		}
	}
	let post = &rec["post"];
	let obs_entries = entries_j(o.iter());
	if obs_entries != post["entries"] {
		rep.mismatch("C06.entries", json!({"what": "entries after the operation differ from the list model", "vector": rec, "observed": obs_entries}));
		return;
	}
	if ret != post["ret"] {
		rep.mismatch("C06.result", json!({"what": "operation result differs from the list model", "vector": rec, "observed": ret}));
	}
	let idx = index_dump(&o);
	if idx != post["idx"] {
		rep.mismatch("C06.index", json!({"what": "key index buckets differ from the index of the entries (stale / unsorted)", "vector": rec, "observed": idx}));
	}
	let keys = keys_of_vector(rec);
	// the object is also queried from another thread than the one that built it
	if rep.counters["obj_vectors"] % 16 == 3 {
		let mut moved = o.clone();
		let entries = post["entries"].clone();
		let r = std::thread::scope(|sc| sc.spawn(|| guarded(|| check_queries(&mut moved, &entries, &keys))).join());
		match r {
			Ok(Ok(None)) => (),
			Ok(Ok(Some(d))) => rep.mismatch("C06.query", json!({"what": "key-based query from another thread differs from a linear scan", "vector": rec, "detail": d})),
			_ => rep.mismatch("C06.panic", json!({"what": "query from another thread panicked", "vector": rec})),
		}
		let r2 = std::thread::scope(|sc| sc.spawn(|| guarded(|| check_queries(&mut o, &entries, &keys))).join());
		if !matches!(r2, Ok(Ok(None))) {
			rep.mismatch("C06.query", json!({"what": "key-based query of the object itself, moved to another thread, differs from a linear scan", "vector": rec}));
		}
	}
	match guarded(|| check_queries(&mut o, &post["entries"], &keys)) {
		Ok(None) => (),
		Ok(Some(d)) => rep.mismatch("C06.query", json!({"what": "key-based query differs from a linear scan", "vector": rec, "detail": d})),
		Err(p) => rep.mismatch("C06.panic", json!({"what": "query panicked", "vector": rec, "panic": p})),
	}
	// C14: content-only equality / ordering / hashing across histories
	let canon = post["entries"].to_string();
	let h = hash_obj(&o);
	let c = o.clone();
	if c != o || c.cmp(&o) != std::cmp::Ordering::Equal || hash_obj(&c) != h {
		rep.mismatch("C14.clone", json!({"what": "a clone differs from its original (eq / cmp / hash)", "vector": rec}));
	}
	if !twin_ok || twin != o || hash_obj(&twin) != h || twin.cmp(&o) != std::cmp::Ordering::Equal {
		rep.mismatch("C14.observed", json!({"what": "an object that was hashed / compared after every step of its history differs (eq / cmp / hash) from an object rebuilt from the same entries, or from the same history without observations", "vector": rec}));
	}
	let hist_s = format!("{}+{}", rec["hist"], rec["op"]);
	match st.seen.get(&canon) {
		None => {
			st.seen.insert(canon, (o, h, hist_s));
		}
		Some((first, fh, fhist)) => {
			rep.count("history_pairs");
			let eq = *first == o && o == *first;
			let ord = first.cmp(&o) == std::cmp::Ordering::Equal && o.partial_cmp(first) == Some(std::cmp::Ordering::Equal);
			let (va, vb) = (Value::Object(first.clone()), Value::Object(o.clone()));
			let veq = va == vb && va.cmp(&vb) == std::cmp::Ordering::Equal && hash_of(&va) == hash_of(&vb);
			if !eq || !ord || *fh != h || !veq {
				rep.mismatch("C14.history", json!({"what": "objects with the same entries reached through different histories differ (eq / cmp / hash)", "vector": rec,
					"other_history": fhist, "eq": eq, "cmp_equal": ord, "hash_equal": *fh == h, "as_values": veq}));
			}
		}
	}
	rep.note_distinct(hash_of(&(rec["hist"].to_string(), rec["op"].to_string())));
	let n = rep.counters["obj_vectors"];
	rep.sample(2003, n, || json!({"history": rec["hist"], "op": rec["op"], "expected_post": rec["post"]}));
}

/// impl -> spec: a long random history over many keys; every event carries
/// arguments, result and full post-state (entries + hooked index buckets).
pub fn record(args: &Args) {
	let n = args.num("n", 300);
	let nkeys = args.num("keys", 40);
	let resets = args.num("resets", 3);
	// observe > 0: after one operation in `observe` (on average) the object is hashed, compared and checked against a rebuilt one
	let observe = args.num("observe", 0);
	let out = args.get("out").unwrap_or_else(|| tool_error("record-obj: --out required"));
	let mut rng = Rng::new(seed() ^ 0x0b1ec7);
	// distinguishable keys: short, long (heap-allocated SmallString), multi-byte
	let keys: Vec<String> = (0..nkeys)
		.map(|i| match i % 4 {
			// keys whose code-point order and UTF-16 order differ (U+E000..U+FFFF versus supplementary planes)
			_ if i == 5 => "\u{ffff}".to_string(),
			_ if i == 6 => "\u{10000}".to_string(),
			_ if i == 9 => "\u{e000}z".to_string(),
			_ if i == 10 => "\u{1f600}a".to_string(),
			0 => format!("k{i}"),
			1 => format!("key-with-a-long-name-{i:04}"),
			2 => format!("\u{e9}{i}\u{10000}"),
			_ => format!("{i}"),
		})
		.collect();
	let mut lines = Vec::new();
	let mut o = Object::new();
	let per = n / resets.max(1) + 1;
	for step in 0..n {
		if step % per == 0 {
			o = Object::new();
			lines.push(json!({"ev": "reset"}));
		}
		// position inside the current segment (between two resets): first the object collects many DISTINCT keys (so that the
		// key table grows through several sizes), then a mixed phase, then it is drained down to a few entries (so that the
		// table passes its thresholds in the other direction), then mixed again
		let at = step % per;
		let (growing, draining) = (at < per / 4, at >= per * 3 / 5 && at < per * 19 / 20);
		let k = if growing {
			keys[rng.below(keys.len())].clone()
		} else if rng.chance(2, 3) && !o.is_empty() {
			// prefer keys that are present: duplicates and removals matter
			o.entries()[rng.below(o.len())].key.to_string()
		} else {
			keys[rng.below(keys.len())].clone()
		};
		let kj = str_to_cps(&k);
		let v = rng.below(10);
		let len = o.len();
		let pulls = *rng.pick(&[0usize, 1, 2, 99, 99]);
		let bulk = |rng: &mut Rng| -> J {
			let m = rng.below(6);
			J::Array((0..m).map(|_| json!({"k": str_to_cps(&keys[rng.below(keys.len().min(8))]), "v": rng.below(10)})).collect())
		};
		// phases: the object mostly grows for a while, then is mostly drained (down to a few entries, so that the key
		// table passes its shrink / tombstone thresholds in both directions), then grows again
		let name = if growing && rng.chance(4, 5) {
			*rng.pick(&["push", "push", "push_front", "insert", "insert_front", "get_or_insert"])
		} else if draining && rng.chance(5, 6) && !o.is_empty() {
			match rng.below(10) {
				0..=4 => "remove_at",
				5..=6 => "remove",
				7..=8 => "remove_unique",
				_ => "insert",
			}
		} else { match rng.below(100) {
			0..=27 => "push",
			28..=39 => "push_front",
			40..=49 => "insert",
			50..=57 => "insert_front",
			58..=65 => "remove",
			66..=70 => "remove_unique",
			71..=78 => "remove_at",
			79..=85 => "set_value",
			86..=89 => "get_or_insert",
			90..=92 => "sort",
			93..=94 => "clone",
			95 => "clone_from",
			96..=98 => "extend",
			_ => "from_vec",
		} };
		let op = match name {
			"remove_at" | "set_value" => json!({"op": name, "k": [], "v": v, "i": rng.below(len + 2), "n": 99, "es": []}),
			"sort" | "clone" => json!({"op": name, "k": [], "v": 0, "i": 0, "n": 99, "es": []}),
			"clone_from" => json!({"op": name, "k": [], "v": 0, "i": 0, "n": 99, "es": bulk(&mut rng)}),
			"extend" | "from_vec" => json!({"op": name, "k": [], "v": 0, "i": 0, "n": 99, "es": bulk(&mut rng)}),
			"remove_unique" | "push" | "push_front" | "get_or_insert" => json!({"op": name, "k": kj, "v": v, "i": 0, "n": 99, "es": []}),
			_ => json!({"op": name, "k": kj, "v": v, "i": 0, "n": pulls, "es": []}),
		};
		let ret = match guarded(|| apply(&mut o, &op, step)) {
			Ok(r) => r,
			Err(p) => json!({"panic": p}),
		};
		lines.push(json!({"ev": "op", "op": op, "ret": ret, "post": {"entries": entries_j(o.iter()), "idx": index_dump(&o)}}));
		if observe > 0 && rng.below(observe) == 0 {
			let same = guarded(|| same_as_rebuilt(&o)).unwrap_or(false);
			lines.push(json!({"ev": "obs", "same": same, "entries": entries_j(o.iter())}));
		}
	}
	let mut f = std::fs::File::create(out).unwrap_or_else(|e| tool_error(&format!("create {out}: {e}")));
	use std::io::Write;
	for l in &lines {
		writeln!(f, "{}", l).unwrap();
	}
	println!("SUMMARY {}", json!({"events": lines.len(), "keys": nkeys, "samples": lines.iter().skip(1).take(3).collect::<Vec<_>>()}));
}
