//! serde conformance (C16, C17, C18): a generic data-model term that drives any
//! Serializer, a recording serializer, projections of serde_json values.
use crate::proj::{project, string_of};
use crate::util::*;
use json_syntax::{SerializeError, Value};
use serde::ser::{SerializeMap, SerializeSeq, SerializeStruct, SerializeStructVariant, SerializeTuple, SerializeTupleStruct, SerializeTupleVariant};
use serde::{Serialize, Serializer};
use serde_json::{json, Value as J};

pub fn intern(s: String) -> &'static str {
	Box::leak(s.into_boxed_str())
}

#[derive(Debug, Clone)]
pub enum Term {
	Unit,
	None,
	UnitStruct,
	Bool(bool),
	Int(String, u8),
	Float(u8, u64),
	Char(char),
	Str(String),
	Bytes(Vec<u8>),
	Some(Box<Term>),
	NewtypeStruct(Box<Term>),
	UnitVariant(&'static str),
	NewtypeVariant(&'static str, Box<Term>),
	Seq(Vec<Term>),
	Tuple(Vec<Term>),
	TupleStruct(Vec<Term>),
	TupleVariant(&'static str, Vec<Term>),
	Map(Vec<(Term, Term)>),
	Struct(Vec<(&'static str, Term)>),
	StructVariant(&'static str, Vec<(&'static str, Term)>),
}

impl Term {
	pub fn from_json(j: &J, salt: u8) -> Term {
		let name = |k: &str| intern(string_of(&j[k]).unwrap_or_else(|e| tool_error(&e)));
		let list = |k: &str| j[k].as_array().unwrap().iter().map(|x| Term::from_json(x, salt.wrapping_add(1))).collect::<Vec<_>>();
		let fields = |k: &str| j[k].as_array().unwrap().iter().map(|f| (intern(string_of(&f[0]).unwrap()), Term::from_json(&f[1], salt.wrapping_add(1)))).collect::<Vec<_>>();
		match j["d"].as_str().unwrap_or_else(|| tool_error("term without tag")) {
			"unit" => Term::Unit,
			"none" => Term::None,
			"unit_struct" => Term::UnitStruct,
			"bool" => Term::Bool(j["b"].as_bool().unwrap()),
			"int" => Term::Int(string_of(&j["n"]).unwrap(), salt),
			"float" => {
				let w = j["w"].as_u64().unwrap_or(64) as u8;
				match j["cls"].as_str().unwrap() {
					"nan" => Term::Float(w, if w == 32 { f32::NAN.to_bits() as u64 } else { f64::NAN.to_bits() }),
					"inf" => Term::Float(w, if w == 32 { f32::INFINITY.to_bits() as u64 } else { f64::NEG_INFINITY.to_bits() }),
					_ => Term::Float(w, j["bits"].as_str().and_then(|s| s.parse().ok()).unwrap_or(0)),
				}
			}
			"char" => Term::Char(char::from_u32(j["c"].as_u64().unwrap() as u32).unwrap()),
			"str" => Term::Str(string_of(&j["s"]).unwrap()),
			"bytes" => Term::Bytes(j["bs"].as_array().unwrap().iter().map(|b| string_of(b).unwrap().parse().unwrap()).collect()),
			"some" => Term::Some(Box::new(Term::from_json(&j["x"], salt.wrapping_add(1)))),
			"newtype_struct" => Term::NewtypeStruct(Box::new(Term::from_json(&j["x"], salt.wrapping_add(1)))),
			"unit_variant" => Term::UnitVariant(name("name")),
			"newtype_variant" => Term::NewtypeVariant(name("name"), Box::new(Term::from_json(&j["x"], salt.wrapping_add(1)))),
			"seq" => Term::Seq(list("xs")),
			"tuple" => Term::Tuple(list("xs")),
			"tuple_struct" => Term::TupleStruct(list("xs")),
			"tuple_variant" => Term::TupleVariant(name("name"), list("xs")),
			"map" => Term::Map(j["kvs"].as_array().unwrap().iter().map(|kv| (Term::from_json(&kv[0], salt.wrapping_add(1)), Term::from_json(&kv[1], salt.wrapping_add(2)))).collect()),
			"struct" => Term::Struct(fields("fields")),
			"struct_variant" => Term::StructVariant(name("name"), fields("fields")),
			other => tool_error(&format!("unknown term tag {other}")),
		}
	}
}

impl Serialize for Term {
	fn serialize<S: Serializer>(&self, s: S) -> Result<S::Ok, S::Error> {
		match self {
			Term::Unit => s.serialize_unit(),
			Term::None => s.serialize_none(),
			Term::UnitStruct => s.serialize_unit_struct("U"),
			Term::Bool(b) => s.serialize_bool(*b),
			Term::Int(n, salt) => {
				// choose a width the value fits in (varying with the salt)
				if let Ok(v) = n.parse::<i64>() {
					if v < 0 {
						match salt % 4 {
							0 if v >= i8::MIN as i64 => s.serialize_i8(v as i8),
							1 if v >= i16::MIN as i64 => s.serialize_i16(v as i16),
							2 if v >= i32::MIN as i64 => s.serialize_i32(v as i32),
							_ => s.serialize_i64(v),
						}
					} else {
						match salt % 8 {
							0 if v <= u8::MAX as i64 => s.serialize_u8(v as u8),
							1 if v <= u16::MAX as i64 => s.serialize_u16(v as u16),
							2 if v <= u32::MAX as i64 => s.serialize_u32(v as u32),
							3 if v <= i8::MAX as i64 => s.serialize_i8(v as i8),
							4 if v <= i16::MAX as i64 => s.serialize_i16(v as i16),
							5 if v <= i32::MAX as i64 => s.serialize_i32(v as i32),
							6 => s.serialize_i64(v),
							_ => s.serialize_u64(v as u64),
						}
					}
				} else {
					s.serialize_u64(n.parse::<u64>().unwrap_or_else(|_| tool_error("int term out of range")))
				}
			}
			Term::Float(32, bits) => s.serialize_f32(f32::from_bits(*bits as u32)),
			Term::Float(_, bits) => s.serialize_f64(f64::from_bits(*bits)),
			Term::Char(c) => s.serialize_char(*c),
			Term::Str(x) => s.serialize_str(x),
			Term::Bytes(b) => s.serialize_bytes(b),
			Term::Some(x) => s.serialize_some(&**x),
			Term::NewtypeStruct(x) => s.serialize_newtype_struct("N", &**x),
			Term::UnitVariant(n) => s.serialize_unit_variant("E", 0, n),
			Term::NewtypeVariant(n, x) => s.serialize_newtype_variant("E", 1, n, &**x),
			Term::Seq(xs) => {
				let mut q = s.serialize_seq(Some(xs.len()))?;
				for x in xs {
					q.serialize_element(x)?;
				}
				q.end()
			}
			Term::Tuple(xs) => {
				let mut q = s.serialize_tuple(xs.len())?;
				for x in xs {
					q.serialize_element(x)?;
				}
				q.end()
			}
			Term::TupleStruct(xs) => {
				let mut q = s.serialize_tuple_struct("T", xs.len())?;
				for x in xs {
					q.serialize_field(x)?;
				}
				q.end()
			}
			Term::TupleVariant(n, xs) => {
				let mut q = s.serialize_tuple_variant("E", 2, n, xs.len())?;
				for x in xs {
					q.serialize_field(x)?;
				}
				q.end()
			}
			Term::Map(kvs) => {
				let mut m = s.serialize_map(Some(kvs.len()))?;
				for (i, (k, v)) in kvs.iter().enumerate() {
					if i % 2 == 0 {
						m.serialize_entry(k, v)?;
					} else {
						m.serialize_key(k)?;
						m.serialize_value(v)?;
					}
				}
				m.end()
			}
			Term::Struct(fs) => {
				let mut m = s.serialize_struct("S", fs.len())?;
				for (k, v) in fs {
					m.serialize_field(k, v)?;
				}
				m.end()
			}
			Term::StructVariant(n, fs) => {
				let mut m = s.serialize_struct_variant("E", 3, n, fs.len())?;
				for (k, v) in fs {
					m.serialize_field(k, v)?;
				}
				m.end()
			}
		}
	}
}

pub fn ser_outcome(r: Result<Result<Value, SerializeError>, String>) -> J {
	match r {
		Err(p) => json!({"panic": p}),
		Ok(Ok(v)) => json!({"ok": true, "v": project(&v)}),
		Ok(Err(SerializeError::NonStringKey)) => json!({"ok": false, "err": "non_string_key"}),
		Ok(Err(SerializeError::MalformedHighPrecisionNumber)) => json!({"ok": false, "err": "malformed_number"}),
		Ok(Err(SerializeError::Custom(m))) => json!({"ok": false, "err": "custom", "msg": m}),
	}
}

/// serde_json::Value -> tagged record; numbers by class: posint / negint (digits) or float (bits)
pub fn project_sj(v: &serde_json::Value) -> J {
	use serde_json::Value as S;
	match v {
		S::Null => json!({"t": "null"}),
		S::Bool(b) => json!({"t": "bool", "b": b}),
		S::Number(n) => json!({"t": "num", "num": str_to_cps(&n.to_string())}),
		S::String(s) => json!({"t": "str", "str": str_to_cps(s)}),
		S::Array(a) => json!({"t": "arr", "items": a.iter().map(project_sj).collect::<Vec<_>>()}),
		S::Object(o) => json!({"t": "obj", "entries": o.iter().map(|(k, v)| json!({"k": str_to_cps(k), "v": project_sj(v)})).collect::<Vec<_>>()}),
	}
}

/// sort the members of every object by key (shape comparison up to member order)
pub fn sort_members(j: &J) -> J {
	match j["t"].as_str() {
		Some("arr") => json!({"t": "arr", "items": j["items"].as_array().unwrap().iter().map(sort_members).collect::<Vec<_>>()}),
		Some("obj") => {
			let mut es: Vec<J> = j["entries"].as_array().unwrap().iter().map(|e| json!({"k": e["k"], "v": sort_members(&e["v"])})).collect();
			es.sort_by(|a, b| a["k"].to_string().cmp(&b["k"].to_string()));
			json!({"t": "obj", "entries": es})
		}
		_ => j.clone(),
	}
}

fn mentions_token(j: &J) -> bool {
	j.to_string().contains("36,115,101,114,100,101,95,106,115,111,110")
}

pub fn replay_ser(rep: &mut Report, rec: &J) {
	rep.count("ser_vectors");
	let salt = rep.counters["ser_vectors"] as u8;
	let term = Term::from_json(&rec["d"], salt);
	let got = ser_outcome(guarded(|| json_syntax::to_value(&term)));
	rep.count("ser_calls");
	if got != rec["out"] {
		rep.mismatch("C16.encode", json!({"what": "serializer output differs from the specified encoding of the data-model term", "vector": rec, "observed": got}));
		// the same mechanism carries Value's own Serialize impl
		rep.mismatch("C17.encode", json!({"what": "serializer output differs from the specified encoding of the data-model term", "vector": rec, "observed": got}));
	}
	// the comparison target named by C16: where serde_json succeeds the shape is the same
	if rec["out"]["ok"] == true && got["ok"] == true && !mentions_token(&rec["d"]) {
		if let Ok(Ok(sj)) = guarded(|| serde_json::to_value(&term)) {
			rep.count("ser_calls");
			if sort_members(&project_sj(&sj)) != sort_members(&got["v"]) {
				rep.mismatch("C16.shape", json!({"what": "the produced Value does not have the JSON shape serde_json produces for the same datum", "vector": rec, "observed": got, "serde_json": project_sj(&sj)}));
			}
		}
	}
	rep.note_distinct(hash_of(&rec["d"].to_string()));
	let n = rep.counters["ser_vectors"];
	rep.sample(997, n, || json!({"term": rec["d"], "expected": rec["out"]}));
}

/// build a serde_json value from the abstract tagged form of MC_SerdeJson
fn build_sj(j: &J) -> serde_json::Value {
	use serde_json::Value as S;
	match j["t"].as_str().unwrap() {
		"null" => S::Null,
		"num" => match j["cls"].as_str().unwrap() {
			"pos" => S::Number((u64::MAX - j["n"].as_u64().unwrap()).into()),
			"neg" => S::Number((i64::MIN - j["n"].as_i64().unwrap()).into()),
			_ => S::Number(serde_json::Number::from_f64(j["n"].as_f64().unwrap() * 1.1e-300 + 0.3).unwrap()),
		},
		"arr" => S::Array(j["items"].as_array().unwrap().iter().map(build_sj).collect()),
		"obj" => S::Object(j["entries"].as_array().unwrap().iter().map(|e| (string_of(&e["k"]).unwrap(), build_sj(&e["v"]))).collect()),
		other => tool_error(&format!("sj vector: tag {other}")),
	}
}

fn skeleton(j: &J) -> J {
	match j["t"].as_str() {
		Some("arr") => json!({"t": "arr", "items": j["items"].as_array().unwrap().iter().map(skeleton).collect::<Vec<_>>()}),
		Some("obj") => json!({"t": "obj", "entries": j["entries"].as_array().unwrap().iter().map(|e| json!({"k": e["k"], "v": skeleton(&e["v"])})).collect::<Vec<_>>()}),
		Some("num") => json!({"t": "num"}),
		_ => j.clone(),
	}
}

pub fn replay_sj(rep: &mut Report, rec: &J) {
	rep.count("sj_vectors");
	let sj = build_sj(&rec["s"]);
	match guarded(|| {
		let js = Value::from_serde_json(sj.clone());
		let back = js.clone().into_serde_json();
		// the From impls are the same conversions
		let js2: Value = sj.clone().into();
		let back2 = serde_json::Value::from(js.clone());
		if js2 != js || back2 != back {
			panic!("From<serde_json::Value> for Value / From<Value> for serde_json::Value differ from from_serde_json / into_serde_json");
		}
		(project(&js), back)
	}) {
		Err(p) => rep.mismatch("C18.panic", json!({"what": "conversion panicked", "vector": rec, "panic": p})),
		Ok((js, back)) => {
			rep.add("sj_calls", 2);
			// structure (entry order = the map's order) as specified; numbers keep their value
			if skeleton(&js) != skeleton(&rec["js"]) {
				rep.mismatch("C18.from", json!({"what": "from_serde_json does not preserve the structure", "vector": rec, "observed": js}));
			}
			if back != sj {
				rep.mismatch("C18.roundtrip", json!({"what": "serde_json -> json-syntax -> serde_json is not the identity", "vector": rec, "back": project_sj(&back)}));
			}
		}
	}
	rep.note_distinct(hash_of(&rec["s"].to_string()));
	let n = rep.counters["sj_vectors"];
	rep.sample(37, n, || rec.clone());
}

// ------------------------------------------------------------------ a term as a self-describing Deserializer
use serde::de::{self, DeserializeSeed, Deserializer, MapAccess, SeqAccess, Visitor};

#[derive(Debug)]
pub struct TermErr(String);
impl std::fmt::Display for TermErr {
	fn fmt(&self, f: &mut std::fmt::Formatter) -> std::fmt::Result {
		f.write_str(&self.0)
	}
}
impl std::error::Error for TermErr {}
impl de::Error for TermErr {
	fn custom<T: std::fmt::Display>(m: T) -> Self {
		TermErr(m.to_string())
	}
}

pub struct TermDe<'a>(pub &'a Term);

thread_local! {
	/// what the term deserializer's sequences and maps ANNOUNCE as their size (a hint, possibly far off, as a foreign
	/// deserializer reading an untrusted length prefix may give): None = no hint
	pub static FORGED_HINT: std::cell::Cell<Option<usize>> = std::cell::Cell::new(None);
}

struct TermSeq<'a>(std::slice::Iter<'a, Term>);
impl<'de, 'a> SeqAccess<'de> for TermSeq<'a> {
	type Error = TermErr;
	fn size_hint(&self) -> Option<usize> {
		FORGED_HINT.with(|h| h.get())
	}
	fn next_element_seed<T: DeserializeSeed<'de>>(&mut self, seed: T) -> Result<Option<T::Value>, TermErr> {
		match self.0.next() {
			Some(t) => seed.deserialize(TermDe(t)).map(Some),
			None => Ok(None),
		}
	}
}
struct TermMap<'a>(std::slice::Iter<'a, (Term, Term)>, Option<&'a Term>);
impl<'de, 'a> MapAccess<'de> for TermMap<'a> {
	type Error = TermErr;
	fn size_hint(&self) -> Option<usize> {
		FORGED_HINT.with(|h| h.get())
	}
	fn next_key_seed<T: DeserializeSeed<'de>>(&mut self, seed: T) -> Result<Option<T::Value>, TermErr> {
		match self.0.next() {
			Some((k, v)) => {
				self.1 = Some(v);
				seed.deserialize(TermDe(k)).map(Some)
			}
			None => Ok(None),
		}
	}
	fn next_value_seed<T: DeserializeSeed<'de>>(&mut self, seed: T) -> Result<T::Value, TermErr> {
		seed.deserialize(TermDe(self.1.take().ok_or_else(|| TermErr("value before key".into()))?))
	}
}

impl<'de, 'a> Deserializer<'de> for TermDe<'a> {
	type Error = TermErr;
	fn deserialize_any<V: Visitor<'de>>(self, v: V) -> Result<V::Value, TermErr> {
		match self.0 {
			Term::Unit | Term::UnitStruct => v.visit_unit(),
			Term::None => v.visit_none(),
			Term::Bool(b) => v.visit_bool(*b),
			Term::Int(n, salt) => match n.parse::<i64>() {
				Ok(i) if i < 0 || salt % 2 == 0 => v.visit_i64(i),
				_ => v.visit_u64(n.parse::<u64>().map_err(|_| TermErr("int out of range".into()))?),
			},
			Term::Float(32, bits) => v.visit_f32(f32::from_bits(*bits as u32)),
			Term::Float(_, bits) => v.visit_f64(f64::from_bits(*bits)),
			Term::Char(c) => v.visit_char(*c),
			Term::Str(s) => {
				if s.len() % 2 == 0 {
					v.visit_str(s)
				} else {
					v.visit_string(s.clone())
				}
			}
			Term::Bytes(b) => v.visit_bytes(b),
			Term::Some(x) => v.visit_some(TermDe(x)),
			Term::NewtypeStruct(x) => v.visit_newtype_struct(TermDe(x)),
			Term::Seq(xs) | Term::Tuple(xs) | Term::TupleStruct(xs) => v.visit_seq(TermSeq(xs.iter())),
			Term::Map(kvs) => v.visit_map(TermMap(kvs.iter(), None)),
			// enums and structs are not presented by a self-describing format as such
			Term::UnitVariant(_) | Term::NewtypeVariant(..) | Term::TupleVariant(..) | Term::Struct(_) | Term::StructVariant(..) => Err(TermErr("not a self-describing shape".into())),
		}
	}
	serde::forward_to_deserialize_any! {
		bool i8 i16 i32 i64 i128 u8 u16 u32 u64 u128 f32 f64 char str string bytes byte_buf option unit unit_struct
		newtype_struct seq tuple tuple_struct map struct enum identifier ignored_any
	}
}

fn self_describing(t: &Term) -> bool {
	match t {
		Term::UnitVariant(_) | Term::NewtypeVariant(..) | Term::TupleVariant(..) | Term::Struct(_) | Term::StructVariant(..) | Term::UnitStruct | Term::TupleStruct(_) => false,
		Term::Float(..) => false,
		Term::Some(x) | Term::NewtypeStruct(x) => self_describing(x),
		Term::Seq(xs) | Term::Tuple(xs) => xs.iter().all(self_describing),
		Term::Map(kvs) => kvs.iter().all(|(k, v)| self_describing(k) && self_describing(v)),
		_ => true,
	}
}

/// C17: `Value::deserialize` driven by a term (the ValueVisitor machine)
/// SerdeDe!AnnouncedSize: the sequence / map access that `Value` (as a Deserializer) hands to a visitor announces exactly the
/// number of elements / entries left, at every step and at every depth.  `bad`: the first deviation.
pub struct HintProbe {
	pub bad: Option<String>,
}
struct ProbeVisitor;
impl<'de> serde::de::Visitor<'de> for ProbeVisitor {
	type Value = HintProbe;
	fn expecting(&self, f: &mut std::fmt::Formatter) -> std::fmt::Result {
		f.write_str("anything")
	}
	fn visit_bool<E>(self, _: bool) -> Result<HintProbe, E> { Ok(HintProbe { bad: None }) }
	fn visit_i64<E>(self, _: i64) -> Result<HintProbe, E> { Ok(HintProbe { bad: None }) }
	fn visit_u64<E>(self, _: u64) -> Result<HintProbe, E> { Ok(HintProbe { bad: None }) }
	fn visit_f64<E>(self, _: f64) -> Result<HintProbe, E> { Ok(HintProbe { bad: None }) }
	fn visit_str<E>(self, _: &str) -> Result<HintProbe, E> { Ok(HintProbe { bad: None }) }
	fn visit_unit<E>(self) -> Result<HintProbe, E> { Ok(HintProbe { bad: None }) }
	fn visit_seq<A: serde::de::SeqAccess<'de>>(self, mut seq: A) -> Result<HintProbe, A::Error> {
		let mut hints = vec![];
		let mut bad = None;
		loop {
			let h = seq.size_hint();
			hints.push(h);
			match seq.next_element::<HintProbe>()? {
				Some(c) => bad = bad.or(c.bad),
				None => break,
			}
		}
		let n = hints.len() - 1;
		for (i, h) in hints.iter().enumerate() {
			if *h != Some(n - i) && bad.is_none() {
				bad = Some(format!("sequence of {n} elements, {} left: size_hint() = {h:?}", n - i));
			}
		}
		Ok(HintProbe { bad })
	}
	fn visit_map<A: serde::de::MapAccess<'de>>(self, mut map: A) -> Result<HintProbe, A::Error> {
		let mut hints = vec![];
		let mut bad = None;
		loop {
			let h = map.size_hint();
			hints.push(h);
			match map.next_entry::<serde::de::IgnoredAny, HintProbe>()? {
				Some((_, c)) => bad = bad.or(c.bad),
				None => break,
			}
		}
		let n = hints.len() - 1;
		for (i, h) in hints.iter().enumerate() {
			if *h != Some(n - i) && bad.is_none() {
				bad = Some(format!("map of {n} entries, {} left: size_hint() = {h:?}", n - i));
			}
		}
		Ok(HintProbe { bad })
	}
}
impl<'de> serde::Deserialize<'de> for HintProbe {
	fn deserialize<D: serde::Deserializer<'de>>(d: D) -> Result<Self, D::Error> {
		d.deserialize_any(ProbeVisitor)
	}
}

pub fn replay_visitor(rep: &mut Report, rec: &J) {
	let term = Term::from_json(&rec["d"], rep.counters.get("visitor_vectors").copied().unwrap_or(0) as u8);
	if !self_describing(&term) {
		return;
	}
	rep.count("visitor_vectors");
	use serde::Deserialize;
	// the announced sizes rotate: none, exact-ish, and grossly over-estimated ones (nothing may be sized by a hint)
	let hints = [None, Some(0), Some(2), Some(usize::MAX), Some(usize::MAX / 8), Some(1usize << 40)];
	FORGED_HINT.with(|h| h.set(hints[rep.counters["visitor_vectors"] as usize % hints.len()]));
	let got = match guarded(|| Value::deserialize(TermDe(&term))) {
		Err(p) => json!({"panic": p}),
		Ok(Ok(v)) => {
			// beyond the listed properties (extension aspect X03.size_hint): the sizes announced to visitors
			if let Ok(Ok(HintProbe { bad: Some(what) })) = guarded(|| json_syntax::from_value::<HintProbe>(v.clone())) {
				rep.mismatch("X03.size_hint", json!({"what": "Value as a Deserializer announces a size that is not the number of elements / entries left", "detail": what, "value": project(&v)}));
			}
			rep.count("size_hint_probes");
			json!({"ok": true, "v": project(&v)})
		}
		Ok(Err(e)) => {
			let m = e.to_string();
			json!({"ok": false, "err": if m.starts_with("invalid type") { "invalid_type" } else if m.contains("invalid JSON number") || m.contains("invalid number") { "invalid_number" } else { "other" }, "msg": m})
		}
	};
	rep.count("visitor_calls");
	let exp = &rec["de"];
	let same = got["ok"] == exp["ok"] && (got["ok"] == true && got["v"] == exp["v"] || got["ok"] == false && (got["err"] == exp["err"] || exp["err"] == "invalid_number" && got["err"] == "other"));
	if !same {
		rep.mismatch("C17.visitor", json!({"what": "Value::deserialize on a self-describing term differs from the ValueVisitor specification", "vector": rec, "observed": got}));
	}
}
