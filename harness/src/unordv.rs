//! C15: unordered equality.
use crate::gen::ValueGen;
use crate::proj::{build, project};
use crate::util::*;
use json_syntax::object::Entry;
use json_syntax::{BorrowUnordered, Unordered, UnorderedPartialEq, Value};
use serde_json::{json, Value as J};

fn answers(a: &Value, b: &Value) -> (bool, bool, bool, bool) {
	let ab = a.unordered_eq(b);
	let ba = b.unordered_eq(a);
	let w1 = a.as_unordered() == b.as_unordered();
	let mut w2 = Unordered(a.clone()) == Unordered(b.clone());
	// the container types are entry points of the comparison in their own right (Array = Vec<Value>, Object): every
	// route must give the same answer as the comparison of the values; a disagreement is reported through w2
	let mut routes: Vec<bool> = vec![];
	if let (Value::Array(x), Value::Array(y)) = (a, b) {
		routes.push(x.unordered_eq(y));
		routes.push(y.unordered_eq(x));
		routes.push(x.as_unordered() == y.as_unordered());
		routes.push(Unordered(x.clone()) == Unordered(y.clone()));
	}
	if let (Value::Object(x), Value::Object(y)) = (a, b) {
		routes.push(x.unordered_eq(y));
		routes.push(y.unordered_eq(x));
		routes.push(x.as_unordered() == y.as_unordered());
		routes.push(Unordered(x.clone()) == Unordered(y.clone()));
	}
	// operands that come from elsewhere: built on another thread, or brought in by clone_from into an unrelated value
	{
		let pa = project(a);
		let pb = project(b);
		let (ta, tb) = std::thread::scope(|sc| {
			let h = sc.spawn(|| (build(&pa).unwrap(), build(&pb).unwrap()));
			h.join().unwrap()
		});
		routes.push(a.unordered_eq(&tb));
		routes.push(ta.unordered_eq(b));
		// reflexivity of a value that came from another thread
		if !tb.unordered_eq(&tb) || !ta.unordered_eq(&ta) {
			routes.push(!ab);
		}
		let mut cb = Value::Object(vec![Entry::new("unrelated".into(), Value::Null)].into_iter().collect());
		cb.clone_from(b);
		routes.push(a.unordered_eq(&cb));
		routes.push(cb.unordered_eq(a));
		if let (Value::Object(x), Value::Object(y)) = (a, b) {
			let mut cy: json_syntax::Object = vec![Entry::new("unrelated".into(), Value::Null), Entry::new("other".into(), Value::Null)].into_iter().collect();
			cy.clone_from(y);
			routes.push(x.unordered_eq(&cy));
			let mut v = vec![json_syntax::Object::new()];
			v.clone_from(&vec![y.clone()]);
			routes.push(x.unordered_eq(&v[0]));
		}
	}
	// values annotated with metadata (locspan::Meta): unordered-equal iff the metadata are equal and the values are
	// unordered-equal; vectors of them item by item
	{
		use locspan::Meta;
		routes.push(Meta(a.clone(), 7u8).unordered_eq(&Meta(b.clone(), 7u8)));
		routes.push(Meta(b.clone(), "m").unordered_eq(&Meta(a.clone(), "m")));
		routes.push(vec![Meta(a.clone(), 1u8), Meta(b.clone(), 2u8)].unordered_eq(&vec![Meta(b.clone(), 1u8), Meta(a.clone(), 2u8)]));
		routes.push(Unordered(Meta(a.clone(), ())) == Unordered(Meta(b.clone(), ())));
		let differ = [
			Meta(a.clone(), 7u8).unordered_eq(&Meta(b.clone(), 8u8)),
			Meta(a.clone(), 7u8).unordered_eq(&Meta(a.clone(), 8u8)),
			vec![Meta(a.clone(), 1u8), Meta(b.clone(), 2u8)].unordered_eq(&vec![Meta(a.clone(), 1u8), Meta(b.clone(), 3u8)]),
			vec![Meta(a.clone(), 1u8)].unordered_eq(&vec![Meta(a.clone(), 1u8), Meta(a.clone(), 1u8)]),
			vec![a.clone(), b.clone()].unordered_eq(&vec![a.clone()]),
		];
		if differ.iter().any(|d| *d) {
			routes.push(!ab);
		}
	}
	if routes.iter().any(|r| *r != ab) {
		w2 = !ab;
	}
	(ab, ba, w1, w2)
}

pub fn replay_uneq(rep: &mut Report, rec: &J) {
	rep.count("uneq_vectors");
	let (a, b) = match (build(&rec["a"]), build(&rec["b"])) {
		(Ok(a), Ok(b)) => (a, b),
		_ => tool_error("uneq vector: cannot build values"),
	};
	let exp = rec["eq"].as_bool().unwrap();
	match guarded(|| answers(&a, &b)) {
		Err(p) => rep.mismatch("C15.panic", json!({"what": "unordered comparison panicked", "vector": rec, "panic": p})),
		Ok((ab, ba, w1, w2)) => {
			rep.add("uneq_calls", 4);
			if ab != exp || ba != exp || w1 != exp || w2 != exp {
				rep.mismatch("C15.relation", json!({"what": if exp { "values equal up to permutation of object entries are reported different" } else { "values that are not permutations of each other are reported unordered-equal" },
					"vector": rec, "unordered_eq(a,b)": ab, "unordered_eq(b,a)": ba, "as_unordered": w1, "Unordered": w2}));
			}
			if a == b && !ab {
				rep.mismatch("C15.relation", json!({"what": "equal values are not unordered-equal", "vector": rec}));
			}
		}
	}
	rep.note_distinct(hash_of(&(rec["a"].to_string(), rec["b"].to_string())));
	let n = rep.counters["uneq_vectors"];
	rep.sample(4999, n, || rec.clone());
}

fn shuffle_deep(rng: &mut Rng, v: &Value) -> Value {
	match v {
		Value::Array(a) => Value::Array(a.iter().map(|x| shuffle_deep(rng, x)).collect()),
		Value::Object(o) => {
			let mut es: Vec<Entry> = o.iter().map(|e| Entry::new(e.key.clone(), shuffle_deep(rng, &e.value))).collect();
			rng.shuffle(&mut es);
			Value::Object(es.into_iter().collect())
		}
		other => other.clone(),
	}
}

/// one mutation somewhere: change a leaf, duplicate an entry instead of another one
/// (multiplicities), rename a key, swap two array items
fn mutate(rng: &mut Rng, g: &ValueGen, v: &Value) -> Value {
	match v {
		Value::Array(a) if !a.is_empty() => {
			let mut c = a.clone();
			let i = rng.below(c.len());
			if rng.chance(1, 4) {
				// a proper prefix / an extension: arrays of different lengths
				if rng.chance(1, 2) {
					c.pop();
				} else {
					c.push(g.leaf(rng));
				}
			} else if rng.chance(1, 3) && c.len() > 1 {
				let j = (i + 1) % c.len();
				c.swap(i, j);
			} else {
				c[i] = mutate(rng, g, &c[i]);
			}
			Value::Array(c)
		}
		Value::Object(o) if !o.is_empty() => {
			let mut es: Vec<Entry> = o.iter().cloned().collect();
			let i = rng.below(es.len());
			match rng.below(4) {
				0 => es[i].key = rng.pick(&g.keys).as_str().into(),
				1 if es.len() > 1 => {
					// same keys, same set of values, different multiplicities
					let j = (i + 1) % es.len();
					es[j] = es[i].clone();
				}
				_ => es[i].value = mutate(rng, g, &es[i].value),
			}
			Value::Object(es.into_iter().collect())
		}
		_ => g.leaf(rng),
	}
}

pub fn record(args: &Args) {
	let n = args.num("n", 200);
	let out = args.get("out").unwrap_or_else(|| tool_error("record-unordered: --out required"));
	let mut rng = Rng::new(seed() ^ 0x0c15);
	let mut g = ValueGen::small();
	g.max_children = 5;
	let mut lines = vec![];
	for i in 0..n {
		let a = if i % 20 == 13 {
			// one key occurring 66..80 times (plus a few others): matching repeated entries one-to-one, at scale
			let n = 66 + rng.below(15);
			let mut es: Vec<Entry> = (0..n).map(|_| Entry::new("dup".into(), g.leaf(&mut rng))).collect();
			es.push(Entry::new("x".into(), g.leaf(&mut rng)));
			es.push(Entry::new("dup".into(), Value::Array(vec![g.leaf(&mut rng)])));
			Value::Object(es.into_iter().collect())
		} else if i % 10 == 9 {
			// a wide object (an implementation may switch strategy with the size): 64..100 entries over 40 keys, so that many
			// keys repeat, some with equal values and some with different ones
			let n = 64 + rng.below(37);
			let es: Vec<Entry> = (0..n).map(|j| Entry::new(format!("k{}", (j * 7 + rng.below(3)) % 40).as_str().into(), g.leaf(&mut rng))).collect();
			let o: Value = Value::Object(es.into_iter().collect());
			if rng.chance(1, 2) { o } else { Value::Array(vec![Value::Null, o]) }
		} else if i % 3 == 0 { Value::Object(g.object(&mut rng, 2)) } else { g.value(&mut rng, 3) };
		let b = match i % 4 {
			0 | 1 => shuffle_deep(&mut rng, &a),
			2 => {
				let sh = shuffle_deep(&mut rng, &a);
				mutate(&mut rng, &g, &sh)
			}
			_ => mutate(&mut rng, &g, &a),
		};
		let rec = match guarded(|| answers(&a, &b)) {
			Ok((ab, ba, w1, w2)) => json!({"ev": "uneq", "a": project(&a), "b": project(&b), "ab": ab, "ba": ba, "wrapped": w1, "routes_agree": w1 == w2, "panic": false, "eq": a == b}),
			Err(p) => json!({"ev": "uneq", "a": project(&a), "b": project(&b), "ab": false, "ba": false, "wrapped": false, "routes_agree": false, "panic": true, "msg": p, "eq": a == b}),
		};
		lines.push(rec);
	}
	use std::io::Write;
	let mut f = std::fs::File::create(out).unwrap_or_else(|e| tool_error(&format!("create {out}: {e}")));
	for l in &lines {
		writeln!(f, "{}", l).unwrap();
	}
	println!("SUMMARY {}", json!({"events": lines.len(), "samples": lines.iter().take(2).collect::<Vec<_>>()}));
}
