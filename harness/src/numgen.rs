//! Number spellings for the canonicalization and serde checks: exact decimal
//! expansions of doubles and of midpoints between doubles (tiny bigint), near-
//! halfway perturbations, subnormals, threshold neighbours, exact respellings.
use crate::util::Rng;

/// little-endian base 1e9 natural
#[derive(Clone)]
pub struct Big(Vec<u32>);
const BASE: u64 = 1_000_000_000;

impl Big {
	pub fn from_u64(mut v: u64) -> Self {
		let mut d = vec![];
		while v > 0 {
			d.push((v % BASE) as u32);
			v /= BASE;
		}
		Big(d)
	}
	pub fn mul_small(&mut self, k: u32) {
		let mut carry = 0u64;
		for limb in self.0.iter_mut() {
			let p = *limb as u64 * k as u64 + carry;
			*limb = (p % BASE) as u32;
			carry = p / BASE;
		}
		while carry > 0 {
			self.0.push((carry % BASE) as u32);
			carry /= BASE;
		}
	}
	pub fn to_decimal(&self) -> String {
		if self.0.is_empty() {
			return "0".into();
		}
		let mut s = format!("{}", self.0[self.0.len() - 1]);
		for limb in self.0.iter().rev().skip(1) {
			s.push_str(&format!("{:09}", limb));
		}
		s
	}
}

/// (mantissa, binary exponent) of a finite non-negative double: value = m * 2^e
pub fn parts(f: f64) -> (u64, i32) {
	let b = f.abs().to_bits();
	let ex = ((b >> 52) & 0x7ff) as i32;
	let fr = b & ((1u64 << 52) - 1);
	if ex == 0 {
		(fr, -1074)
	} else {
		(fr | (1u64 << 52), ex - 1075)
	}
}

/// exact decimal spelling (JSON number syntax, no exponent unless tiny/huge) of m * 2^e
pub fn exact_decimal(m: u64, e: i32) -> String {
	if m == 0 {
		return "0".into();
	}
	let mut b = Big::from_u64(m);
	if e >= 0 {
		for _ in 0..e {
			b.mul_small(2);
		}
		b.to_decimal()
	} else {
		// m * 2^e = m * 5^k / 10^k  with k = -e
		let k = (-e) as usize;
		for _ in 0..k {
			b.mul_small(5);
		}
		let digits = b.to_decimal();
		// place the decimal point k digits from the right, as  d.ddd e-x  to stay compact
		let digits_trim = digits.trim_end_matches('0');
		let removed = digits.len() - digits_trim.len();
		let frac_len = k - removed;
		let d = digits_trim;
		// d * 10^-frac_len
		if d.len() > 1 {
			format!("{}.{}e{}", &d[..1], &d[1..], d.len() as i64 - 1 - frac_len as i64)
		} else {
			format!("{}e{}", d, -(frac_len as i64))
		}
	}
}

/// the exact midpoint between the double m*2^e and the next one above: (2m+1) * 2^(e-1)
pub fn midpoint_above(m: u64, e: i32) -> String {
	exact_decimal(2 * m + 1, e - 1)
}

/// split a JSON number spelling into (negative, digits without leading zeros, exponent):
/// value = digits * 10^exp
pub fn decimal_parts(sp: &str) -> (bool, String, i64) {
	let (neg, body) = match sp.strip_prefix('-') {
		Some(b) => (true, b),
		None => (false, sp),
	};
	let (mant, exp) = match body.find(|c| c == 'e' || c == 'E') {
		Some(i) => (&body[..i], body[i + 1..].parse::<i64>().unwrap_or(0)),
		None => (body, 0),
	};
	let (ip, fp) = match mant.find('.') {
		Some(i) => (&mant[..i], &mant[i + 1..]),
		None => (mant, ""),
	};
	let all = format!("{ip}{fp}");
	let digits = all.trim_start_matches('0').to_string();
	(neg, digits, exp - fp.len() as i64)
}

/// the same number in plain positional notation (no exponent), when that stays below ~400 characters
pub fn plain(sp: &str) -> String {
	let (neg, digits, exp) = decimal_parts(sp);
	if digits.is_empty() || exp > 40 || exp < -1200 {
		return sp.to_string();
	}
	let body = if exp >= 0 {
		format!("{}{}", digits, "0".repeat(exp as usize))
	} else {
		let k = (-exp) as usize;
		if digits.len() > k {
			format!("{}.{}", &digits[..digits.len() - k], &digits[digits.len() - k..])
		} else {
			format!("0.{}{}", "0".repeat(k - digits.len()), digits)
		}
	};
	format!("{}{}", if neg { "-" } else { "" }, body)
}

/// an exact respelling of the same real number: shifted exponent, extra
/// trailing zeros, E / e / + variants
pub fn respell(rng: &mut Rng, sp: &str) -> String {
	let (neg, digits, x) = decimal_parts(sp);
	let mut out = String::new();
	if neg {
		out.push('-');
	}
	if digits.is_empty() {
		// zero
		out.push_str(*rng.pick(&["0", "0.0", "0e0", "0E+5", "0.000", "0e-3"]));
		return out;
	}
	let mut d = digits.clone();
	let mut x = x;
	// optional trailing zeros (value unchanged: digits*10 , exponent-1)
	for _ in 0..rng.below(3) {
		d.push('0');
		x -= 1;
	}
	// place a decimal point after `ip` digits (1..=len), adjust exponent
	let ip = 1 + rng.below(d.len());
	let (a, b) = d.split_at(ip);
	let e = x + b.len() as i64;
	match rng.below(3) {
		0 if b.is_empty() => out.push_str(a),
		_ => {
			out.push_str(a);
			if !b.is_empty() {
				out.push('.');
				out.push_str(b);
			}
		}
	}
	// plain form without exponent when possible and chosen
	if e != 0 || rng.chance(1, 2) {
		out.push(if rng.chance(1, 2) { 'e' } else { 'E' });
		if e >= 0 && rng.chance(1, 2) {
			out.push('+');
		}
		out.push_str(&e.to_string());
	}
	out
}

/// a number spelling inside the double range, from one of several families
pub fn canon_number(rng: &mut Rng, heavy: bool) -> String {
	let fam = rng.below(if heavy { 12 } else { 9 });
	let neg = if rng.chance(1, 3) { "-" } else { "" };
	let body = match fam {
		0 => crate::gen::number_spelling(rng).trim_start_matches('-').to_string(),
		1 if rng.chance(1, 2) => format!("{}", rng.below(1000)),
		1 => {
			// bare integers of 15..20 digits: above 2^53 most of them are not doubles and must be rounded
			let n = 15 + rng.below(6);
			let mut s = format!("{}", 1 + rng.below(9));
			for _ in 1..n {
				s.push((b'0' + rng.below(10) as u8) as char);
			}
			s
		}
		2 => {
			// random-bit finite double, shortest spelling by Rust
			let f = random_double(rng);
			format!("{:e}", f)
		}
		3 => {
			// long decimal: 18..40 significant digits
			let n = 18 + rng.below(23);
			let mut s = format!("{}", 1 + rng.below(9));
			s.push('.');
			for _ in 0..n {
				s.push((b'0' + rng.below(10) as u8) as char);
			}
			format!("{}e{}", s, rng.range(-30, 30))
		}
		4 => {
			// exact midpoint between two neighbouring doubles (a tie), moderate exponents
			let f = moderate_double(rng);
			let (m, e) = parts(f);
			midpoint_above(m, e)
		}
		5 => {
			// just above / below a midpoint
			let f = moderate_double(rng);
			let (m, e) = parts(f);
			let mid = midpoint_above(m, e);
			let (mant, ex) = mid.split_at(mid.find('e').unwrap_or(mid.len()));
			let mant = if mant.contains('.') { mant.to_string() } else { format!("{mant}.0") };
			if rng.chance(1, 2) {
				format!("{mant}000000001{ex}")
			} else {
				// decrement the last digit (the last digit of an exact midpoint is 5)
				let mut t = mant.clone();
				t.pop();
				format!("{t}4999999999{ex}")
			}
		}
		6 => rng.pick(&["1e21", "999999999999999900000", "1000000000000000000000", "999999999999999999999", "1e-6", "0.000001", "0.00000099999999999999995", "1e-7",
			"123456789012345680000", "1.2345678901234568e21", "0.1", "0.2", "0.30000000000000004", "100", "1E2", "9007199254740993", "9007199254740992", "9007199254740991",
			"4.35", "0.000001234", "333333333.33333329", "1E30", "4.50", "2e-3", "0.000000000000000000000000001", "1.7976931348623157e308", "2.2250738585072014e-308"]).to_string(),
		7 => {
			// subnormal
			let bits = 1 + (rng.next() % ((1u64 << 52) - 1));
			format!("{:e}", f64::from_bits(bits))
		}
		8 => {
			// integers around powers of two / ten
			let k = rng.below(63);
			format!("{}", (1u64 << k) as i128 + rng.range(-2, 2) as i128).trim_start_matches('-').to_string()
		}
		9 => {
			// exact decimal expansion of a random double (hundreds of digits for small exponents)
			let f = random_double(rng);
			let (m, e) = parts(f);
			if e < -400 || e > 200 { format!("{:e}", f) } else { exact_decimal(m, e) }
		}
		10 => {
			let f = random_double(rng);
			let (m, e) = parts(f);
			if e < -300 || e > 200 { format!("{:e}", f) } else { midpoint_above(m, e) }
		}
		_ => {
			// tiny values rounding to zero or the smallest subnormal
			rng.pick(&["1e-400", "2e-324", "3e-324", "2.4703282292062327e-324", "2.4703282292062328e-324", "4.9406564584124654e-324", "7.4e-324"]).to_string()
		}
	};
	let body = if body.starts_with('-') { body[1..].to_string() } else { body };
	// half of the long spellings are written without an exponent (positional notation, dozens of digits after the point)
	let body = if matches!(fam, 3 | 4 | 5 | 9 | 10) && rng.chance(1, 2) { plain(&body) } else { body };
	format!("{neg}{body}")
}

/// Numbers in rounding spots that random generation practically never hits (always recorded, also in the quick
/// tier): exact ties between neighbouring SUBNORMAL doubles and at the subnormal/normal boundary (about 750
/// significant digits each), their near misses, the tie between zero and the smallest subnormal, and exact
/// ties at the top of the double range.
pub fn hard_numbers(heavy: bool) -> Vec<String> {
	let mut out = vec![];
	let sub_m: &[u64] = if heavy { &[0, 1, 2, 5, 0x8_0000_0000_0001, 0xA_5A5A_5A5A_5A5B, 0xF_FFFF_FFFF_FFFF] } else { &[0, 1, 0xF_FFFF_FFFF_FFFF] };
	for &m in sub_m {
		let mid = midpoint_above(m, -1074);
		out.push(mid.clone());
		// just above / just below the tie
		let (mant, ex) = mid.split_at(mid.find('e').unwrap_or(mid.len()));
		let mant = if mant.contains('.') { mant.to_string() } else { format!("{mant}.0") };
		out.push(format!("{mant}0000001{ex}"));
		let mut t = mant.clone();
		t.pop();
		out.push(format!("-{t}49999999{ex}"));
	}
	// the same ties written out positionally (more than a thousand characters, no exponent), and just above / below
	for &m in sub_m.iter().take(2) {
		let mid = plain(&midpoint_above(m, -1074));
		out.push(mid.clone());
		out.push(format!("{mid}0000001"));
		out.push(format!("-{}4999", &mid[..mid.len() - 1]));
	}
	// long spellings of subnormals that are not ties (the exact value of a subnormal plus a little)
	if heavy {
		out.push(format!("{}", exact_decimal(0x3_1234_5678_9ABC, -1074)));
		// ties in the normal range at the extremes of the exponent range
		out.push(midpoint_above(0x10_0000_0000_0001, -1074));
	}
	// just above a tie, written positionally with more than 40 significant digits and a non-zero integer part
	for (m, e) in [(0x10_0000_0000_0000u64, -52), (0x10_0000_0000_0000u64, 1), (0x1A_BCDE_F012_3456u64, -30), (0x1F_FFFF_FFFF_FFFFu64, -3)] {
		let mid = plain(&midpoint_above(m, e));
		let mid = if mid.contains('.') { mid } else { format!("{mid}.0") };
		out.push(format!("{mid}{}1", "0".repeat(60usize.saturating_sub(mid.len()))));
		// ... and above it by far less: the deciding digit comes after 800 / 1300 digits of the tie's own expansion and zeros
		if m == 0x10_0000_0000_0000u64 {
			out.push(format!("{mid}{}1", "0".repeat(800usize.saturating_sub(mid.len()))));
			out.push(format!("-{mid}{}7", "0".repeat(1300usize.saturating_sub(mid.len()))));
		}
		out.push(format!("-{}4{}9", &mid[..mid.len() - 1], "9".repeat(60usize.saturating_sub(mid.len()))));
	}
	out.push(midpoint_above(0x1F_FFFF_FFFF_FFFE, 971));
	out.push(midpoint_above(0x10_0000_0000_0000, 0));
	out
}

pub fn random_double(rng: &mut Rng) -> f64 {
	loop {
		let f = f64::from_bits(rng.next() & 0x7fff_ffff_ffff_ffff);
		if f.is_finite() {
			return f;
		}
	}
}

pub fn moderate_double(rng: &mut Rng) -> f64 {
	// exponent within 2^-60 .. 2^70 so that exact expansions stay short
	let ex = (1023 - 60 + rng.below(130)) as u64;
	f64::from_bits((ex << 52) | (rng.next() & ((1u64 << 52) - 1)))
}
