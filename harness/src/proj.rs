//! Projection between json_syntax values and the tagged-record interchange format.
use json_syntax::{object::Entry, Object, Value};
use serde_json::{json, Value as J};

pub fn cps(s: &str) -> J {
	J::Array(s.chars().map(|c| json!(c as u32)).collect())
}

/// json_syntax::Value -> tagged record (iterative-free: values handled here are not deep).
pub fn project(v: &Value) -> J {
	match v {
		Value::Null => json!({"t": "null"}),
		Value::Boolean(b) => json!({"t": "bool", "b": b}),
		Value::Number(n) => json!({"t": "num", "num": cps(n.as_str())}),
		Value::String(s) => json!({"t": "str", "str": cps(s.as_str())}),
		Value::Array(a) => json!({"t": "arr", "items": a.iter().map(project).collect::<Vec<_>>()}),
		Value::Object(o) => json!({"t": "obj", "entries": o.iter().map(|e| json!({"k": cps(e.key.as_str()), "v": project(&e.value)})).collect::<Vec<_>>()}),
	}
}

pub fn string_of(cps: &J) -> Result<String, String> {
	let mut s = String::new();
	for c in cps.as_array().ok_or("cps: not an array")? {
		let c = c.as_u64().ok_or("cps: not a number")? as u32;
		s.push(char::from_u32(c).ok_or("cps: not a scalar value")?);
	}
	Ok(s)
}

/// tagged record -> json_syntax::Value
pub fn build(j: &J) -> Result<Value, String> {
	let t = j.get("t").and_then(|t| t.as_str()).ok_or("value: missing tag")?;
	Ok(match t {
		"null" => Value::Null,
		"bool" => Value::Boolean(j["b"].as_bool().ok_or("bool: missing b")?),
		"num" => {
			let s = string_of(&j["num"])?;
			Value::Number(json_syntax::NumberBuf::new(s.into_bytes().into()).map_err(|_| "num: invalid spelling".to_string())?)
		}
		"str" => Value::String(string_of(&j["str"])?.into()),
		"arr" => {
			let mut a = Vec::new();
			for it in j["items"].as_array().ok_or("arr: items")? {
				a.push(build(it)?);
			}
			Value::Array(a)
		}
		"obj" => {
			let mut es = Vec::new();
			for e in j["entries"].as_array().ok_or("obj: entries")? {
				es.push(Entry::new(string_of(&e["k"])?.into(), build(&e["v"])?));
			}
			Value::Object(Object::from_vec(es))
		}
		_ => return Err(format!("value: unknown tag {t}")),
	})
}
