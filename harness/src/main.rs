mod hooks;
mod parsev;
mod proj;
mod util;

use util::*;

fn main() {
	std::panic::set_hook(Box::new(|_| {}));
	let argv: Vec<String> = std::env::args().skip(1).collect();
	if argv.is_empty() {
		tool_error("usage: jsv <subcommand> ...");
	}
	let args = Args::parse(&argv[1..]);
	match argv[0].as_str() {
		// replay spec-generated vectors (all kinds) from TLC output files
		"replay" => {
			let mut rep = Report::new();
			for path in &args.pos {
				for_each_record(path, |rec| match rec["k"].as_str() {
					Some("parse") => parsev::replay_parse(&mut rep, &rec),
					Some(k) => tool_error(&format!("unknown vector kind {k}")),
					None => (),
				});
			}
			rep.finish(args.get("out"));
		}
		other => tool_error(&format!("unknown subcommand {other}")),
	}
}
