mod canonv;
mod dev;
mod gen;
mod hooks;
mod kindv;
mod macrov;
mod msgv;
mod navv;
mod numgen;
mod nestv;
mod objv;
mod orderv;
mod parsev;
mod printv;
mod proj;
mod serderec;
mod serdev;
mod sweepv;
mod unordv;
mod util;

use util::*;

fn main() {
	std::panic::set_hook(Box::new(|info| {
		if std::env::var("JSV_PANIC_TRACE").is_ok() {
			eprintln!("panic: {info}");
		}
	}));
	let argv: Vec<String> = std::env::args().skip(1).collect();
	if argv.is_empty() {
		tool_error("usage: jsv <subcommand> ...");
	}
	let args = Args::parse(&argv[1..]);
	if argv[0] != "nest-child" {
		watchdog::start();
	}
	match argv[0].as_str() {
		// replay spec-generated vectors (all kinds) from TLC output files
		"replay" => {
			// records are decoded and replayed by a pool of worker threads (each with its own report);
			// macro vectors are collected and compiled as one batch at the end
			use std::io::BufRead;
			use std::sync::{mpsc, Arc, Mutex};
			let workers = args.num("threads", 12).max(1);
			let (tx, rx) = mpsc::sync_channel::<Vec<String>>(workers * 4);
			let rx = Arc::new(Mutex::new(rx));
			let mut handles = vec![];
			for _ in 0..workers {
				let rx = rx.clone();
				handles.push(std::thread::Builder::new().stack_size(64 << 20).spawn(move || {
					let mut rep = Report::new();
					let mut ost = objv::ObjState::new();
					let mut macros: Vec<serde_json::Value> = vec![];
					loop {
						let batch = match rx.lock().unwrap().recv() {
							Ok(b) => b,
							Err(_) => break,
						};
						for line in batch {
							let rec = match decode_line(&line) {
								Some(r) => r,
								None => continue,
							};
							watchdog::set_context(&line);
							watchdog::record_begin();
							// safety net: a panic that escapes the replay of one record (a call into the code under test that
							// was not individually guarded, or a harness `unwrap` of something the code under test returned)
							// is data about that record - never the death of the worker
							let kind = rec["k"].as_str().unwrap_or("").to_string();
							let caught = std::panic::catch_unwind(std::panic::AssertUnwindSafe(|| {
							match rec["k"].as_str() {
								Some("parse_bytes") => parsev::replay_bytes(&mut rep, &rec),
								Some("parse") => parsev::replay_parse(&mut rep, &rec),
								Some("obj") => objv::replay_obj(&mut rep, &mut ost, &rec),
								Some("nest") => nestv::replay_nest(&mut rep, &rec),
								Some("nestb") => nestv::replay_nestb(&mut rep, &rec),
								Some("canon") => canonv::replay_canon(&mut rep, &rec),
								Some("conv") => navv::replay_conv(&mut rep, &rec),
								Some("fragiter") => navv::replay_fragiter(&mut rep, &rec),
								Some("wide") => printv::replay_wide(&mut rep, &rec),
								Some("deepprint") => printv::replay_deepprint(&mut rep, &rec),
								Some("print") => printv::replay_print(&mut rep, &rec),
								Some("macro") => macros.push(rec.clone()),
								Some("de") => dev::replay_de(&mut rep, &rec),
								Some("sj") => serdev::replay_sj(&mut rep, &rec),
								Some("ser") => {
									serdev::replay_ser(&mut rep, &rec);
									if rec.get("de").is_some() {
										serdev::replay_visitor(&mut rep, &rec);
									}
								}
								Some("uneq") => unordv::replay_uneq(&mut rep, &rec),
								Some("kind_set") => kindv::replay_set(&mut rep, &rec),
								Some("kind_ops") => kindv::replay_ops(&mut rep, &rec),
								Some("kind_iter") => kindv::replay_iter(&mut rep, &rec),
								Some("access") => kindv::replay_access(&mut rep, &rec),
								Some("msg") => msgv::replay_msg(&mut rep, &rec),
								Some(k) => tool_error(&format!("unknown vector kind {k}")),
								None => (),
							}
							}));
							if let Err(e) = caught {
								let msg = e.downcast_ref::<&str>().map(|s| s.to_string()).or_else(|| e.downcast_ref::<String>().cloned()).unwrap_or_else(|| "panic".to_string());
								let props: &[&str] = match kind.as_str() {
									"parse" | "parse_bytes" => &["C01", "C02", "C03", "C05", "C07", "C11", "C12"],
									"nest" | "nestb" => &["C01", "C03", "C05", "C07"],
									"print" | "wide" | "deepprint" => &["C04", "C08", "C13"],
									"obj" => &["C06"],
									"canon" => &["C09", "C10"],
									"conv" | "fragiter" => &["C11"],
									"uneq" => &["C15"],
									"ser" | "de" => &["C16", "C17"],
									"sj" => &["C18"],
									"macro" => &["C19"],
									"kind_set" | "kind_ops" | "kind_iter" | "access" => &["C20"],
									_ => &["X02"],
								};
								for p in props {
									rep.mismatch(&format!("{p}.panic"), serde_json::json!({"what": "replaying this vector panicked outside an individually guarded call (the specification gives every call a result)", "vector": rec, "panic": msg}));
								}
							}
							watchdog::record_end();
						}
					}
					(rep, macros)
				}).unwrap());
			}
			for path in &args.pos {
				let file = std::fs::File::open(path).unwrap_or_else(|e| tool_error(&format!("open {path}: {e}")));
				let reader = std::io::BufReader::with_capacity(1 << 20, file);
				let mut batch = Vec::with_capacity(1000);
				for line in reader.lines() {
					let line = line.unwrap_or_else(|e| tool_error(&format!("read {path}: {e}")));
					if line.starts_with("\"{") || line.starts_with('{') {
						batch.push(line);
						if batch.len() >= 1000 {
							tx.send(std::mem::replace(&mut batch, Vec::with_capacity(1000))).unwrap();
						}
					}
				}
				if !batch.is_empty() {
					tx.send(batch).unwrap();
				}
			}
			drop(tx);
			let mut rep = Report::new();
			let mut macros = vec![];
			for h in handles {
				match h.join() {
					Ok((r, m)) => {
						rep.merge(r);
						macros.extend(m);
					}
					Err(_) => tool_error("a replay worker died (uncaught panic in the harness)"),
				}
			}
			macros.sort_by_key(|m| m.to_string());
			macrov::run_batch(&mut rep, &macros);
			if args.get("value-kinds").is_some() {
				kindv::check_value_kinds(&mut rep);
			}
			rep.finish(args.get("out"));
		}
		"nest-child" => nestv::child(),
		"sweep" => sweepv::record(&args),
		"record-canon" => canonv::record(&args),
		"record-serde" => serderec::record(&args),
		"record-parse" => parsev::record(&args),
		"record-macro" => macrov::record(&args),
		"record-nav" => navv::record(&args),
		"record-obj" => objv::record(&args),
		"record-order" => orderv::record(&args),
		"record-print" => printv::record(&args),
		"record-unordered" => unordv::record(&args),
		other => tool_error(&format!("unknown subcommand {other}")),
	}
}
