mod canonv;
mod gen;
mod hooks;
mod kindv;
mod macrov;
mod navv;
mod numgen;
mod nestv;
mod objv;
mod orderv;
mod parsev;
mod printv;
mod proj;
mod serderec;
mod serdev;
mod sweepv;
mod unordv;
mod util;

use util::*;

fn main() {
	std::panic::set_hook(Box::new(|info| {
		if std::env::var("JSV_PANIC_TRACE").is_ok() {
			eprintln!("panic: {info}");
		}
	}));
	let argv: Vec<String> = std::env::args().skip(1).collect();
	if argv.is_empty() {
		tool_error("usage: jsv <subcommand> ...");
	}
	let args = Args::parse(&argv[1..]);
	match argv[0].as_str() {
		// replay spec-generated vectors (all kinds) from TLC output files
		"replay" => {
			let mut rep = Report::new();
			let mut ost = objv::ObjState::new();
			let mut macros: Vec<serde_json::Value> = vec![];
			for path in &args.pos {
				for_each_record(path, |rec| match rec["k"].as_str() {
					Some("parse_bytes") => parsev::replay_bytes(&mut rep, &rec),
					Some("parse") => parsev::replay_parse(&mut rep, &rec),
					Some("obj") => objv::replay_obj(&mut rep, &mut ost, &rec),
					Some("nest") => nestv::replay_nest(&mut rep, &rec),
					Some("macro") => macros.push(rec.clone()),
					Some("sj") => serdev::replay_sj(&mut rep, &rec),
					Some("ser") => serdev::replay_ser(&mut rep, &rec),
					Some("canon") => canonv::replay_canon(&mut rep, &rec),
					Some("conv") => navv::replay_conv(&mut rep, &rec),
					Some("wide") => printv::replay_wide(&mut rep, &rec),
					Some("print") => printv::replay_print(&mut rep, &rec),
					Some("uneq") => unordv::replay_uneq(&mut rep, &rec),
					Some("kind_set") => kindv::replay_set(&mut rep, &rec),
					Some("kind_ops") => kindv::replay_ops(&mut rep, &rec),
					Some("kind_iter") => kindv::replay_iter(&mut rep, &rec),
					Some(k) => tool_error(&format!("unknown vector kind {k}")),
					None => (),
				});
			}
			macrov::run_batch(&mut rep, &macros);
			if args.get("value-kinds").is_some() {
				kindv::check_value_kinds(&mut rep);
			}
			rep.finish(args.get("out"));
		}
		"record-obj" => objv::record(&args),
		"nest-child" => nestv::child(),
		"sweep" => sweepv::record(&args),
		"record-canon" => canonv::record(&args),
		"record-serde" => serderec::record(&args),
		"record-parse" => parsev::record(&args),
		"record-order" => orderv::record(&args),
		"record-print" => printv::record(&args),
		"record-unordered" => unordv::record(&args),
		other => tool_error(&format!("unknown subcommand {other}")),
	}
}
