//! KindSet conformance (C20): replay of the exhaustive model.
use crate::util::*;
use json_syntax::{Kind, KindSet, Value};
use serde_json::{json, Value as J};

const KINDS: [Kind; 6] = [Kind::Null, Kind::Boolean, Kind::Number, Kind::String, Kind::Array, Kind::Object];

fn kind_no(k: Kind) -> u64 {
	KINDS.iter().position(|x| *x == k).unwrap() as u64 + 1
}

/// build a set from a list of kind numbers, alternating construction routes
fn build(s: &J, route: usize) -> KindSet {
	let mut set = KindSet::none();
	for k in s.as_array().unwrap() {
		let kind = KINDS[k.as_u64().unwrap() as usize - 1];
		match route % 3 {
			0 => set |= kind,
			1 => set = set | kind,
			_ => set = kind | set,
		}
	}
	set
}

fn members(s: KindSet) -> J {
	J::Array(s.iter().map(|k| json!(kind_no(k))).collect())
}

fn pieces(j: &J) -> String {
	j.as_array().unwrap().iter().map(|p| p.as_str().unwrap()).collect()
}

pub fn replay_set(rep: &mut Report, rec: &J) {
	rep.count("kind_set_vectors");
	for route in 0..3 {
		let s = build(&rec["s"], route);
		// a rendering into a sink that fails half-way, on this thread, right before the renderings that are compared
		{
			use std::fmt::Write;
			struct Tiny(usize);
			impl Write for Tiny {
				fn write_str(&mut self, t: &str) -> std::fmt::Result {
					if t.len() > self.0 { self.0 = 0; Err(std::fmt::Error) } else { self.0 -= t.len(); Ok(()) }
				}
			}
			let other = s | Kind::Array | Kind::Null | Kind::Object;
			let _ = write!(Tiny(3 + route), "{}", other.as_disjunction());
			let _ = write!(Tiny(5), "{}", other.as_conjunction());
			let _ = write!(Tiny(2), "{}", other);
		}
		let obs = json!({"len": s.len(), "empty": s.is_empty(), "display": s.to_string(),
			"disj": s.as_disjunction().to_string(), "conj": s.as_conjunction().to_string(), "members": members(s)});
		let exp = json!({"len": rec["len"], "empty": rec["empty"], "display": pieces(&rec["display"]),
			"disj": pieces(&rec["disj"]), "conj": pieces(&rec["conj"]), "members": rec["s"]});
		rep.count("kind_calls");
		if obs != exp {
			rep.mismatch("C20.set", json!({"what": "length / emptiness / rendering / membership differ from set semantics", "vector": rec, "expected": exp, "observed": obs}));
		}
		match guarded(|| iter_routes(&|| s.iter(), &|k| json!(kind_no(k)))) {
			Ok(None) => (),
			Ok(Some(r)) => rep.mismatch("C20.iter", json!({"what": "consuming the set's iterator this way does not give the kinds next() gives", "vector": rec, "route": r})),
			Err(p) => rep.mismatch("C20.iter", json!({"what": "consuming the set's iterator panicked", "vector": rec, "panic": p})),
		}
		// format specifications (width, precision, alignment, alternate) apply to the rendering as a whole or not at all:
		// the text is the documented one, possibly padded / truncated as one string - never reshaped piece by piece
		{
			let plain = [s.to_string(), s.as_disjunction().to_string(), s.as_conjunction().to_string()];
			let wide = [format!("{:24}", s), format!("{:24}", s.as_disjunction()), format!("{:>24}", s.as_conjunction())];
			let alt = [format!("{:#}", s), format!("{:#}", s.as_disjunction()), format!("{:#}", s.as_conjunction())];
			let prec = [format!("{:.3}", s), format!("{:.3}", s.as_disjunction()), format!("{:.3}", s.as_conjunction())];
			for i in 0..3 {
				let p3: String = plain[i].chars().take(3).collect();
				if wide[i].trim() != plain[i] || alt[i] != plain[i] || (prec[i] != plain[i] && prec[i] != p3) {
					rep.mismatch("C20.set", json!({"what": "a format specification reshapes the rendering piece by piece", "vector": rec, "plain": plain[i], "width_24": wide[i], "alternate": alt[i], "precision_3": prec[i]}));
				}
			}
		}
		// Default is the empty set; a set equals itself rebuilt from its own iterator (FromIterator-like folds), in either direction
		if KindSet::default() != KindSet::none() || KindSet::default().len() != 0 {
			rep.mismatch("C20.set", json!({"what": "KindSet::default() is not the empty set", "vector": rec}));
		}
		let refold = s.iter().fold(KindSet::none(), |a, k| a | k);
		let refold_back = s.iter().rev().fold(KindSet::none(), |a, k| k | a);
		if refold != s || refold_back != s {
			rep.mismatch("C20.iter", json!({"what": "a set rebuilt from its own iterator differs from the set", "vector": rec}));
		}
		// all() and none()
		if (s == KindSet::all()) != (rec["len"] == 6) || (s == KindSet::none()) != (rec["len"] == 0) {
			rep.mismatch("C20.set", json!({"what": "all()/none() disagree with the set", "vector": rec}));
		}
	}
	rep.note_distinct(hash_of(&rec["s"].to_string()));
	let n = rep.counters["kind_set_vectors"];
	rep.sample(13, n, || rec.clone());
}

pub fn replay_ops(rep: &mut Report, rec: &J) {
	rep.count("kind_ops_vectors");
	let (a, b) = (build(&rec["a"], 0), build(&rec["b"], 1));
	let mut obs = vec![];
	obs.push(("set|set", members(a | b), &rec["or"]));
	obs.push(("set&set", members(a & b), &rec["and"]));
	let mut x = a;
	x |= b;
	obs.push(("set|=set", members(x), &rec["or"]));
	let mut x = a;
	x &= b;
	obs.push(("set&=set", members(x), &rec["and"]));
	// operand combinations with a single kind (when b is a singleton / a is a singleton)
	let bl = rec["b"].as_array().unwrap();
	let al = rec["a"].as_array().unwrap();
	if bl.len() == 1 {
		let k = KINDS[bl[0].as_u64().unwrap() as usize - 1];
		obs.push(("set|kind", members(a | k), &rec["or"]));
		obs.push(("set&kind", members(a & k), &rec["and"]));
		obs.push(("kind|set", members(k | a), &rec["or"]));
		obs.push(("kind&set", members(k & a), &rec["and"]));
		let mut x = a;
		x |= k;
		obs.push(("set|=kind", members(x), &rec["or"]));
		let mut x = a;
		x &= k;
		obs.push(("set&=kind", members(x), &rec["and"]));
		if al.len() == 1 {
			let ka = KINDS[al[0].as_u64().unwrap() as usize - 1];
			obs.push(("kind|kind", members(ka | k), &rec["or"]));
			obs.push(("kind&kind", members(ka & k), &rec["and"]));
		}
	}
	for (op, got, exp) in obs {
		rep.count("kind_calls");
		if &got != exp {
			rep.mismatch("C20.ops", json!({"what": "operator result differs from set union / intersection", "op": op, "vector": rec, "observed": got}));
		}
	}
	rep.note_distinct(hash_of(&(rec["a"].to_string(), rec["b"].to_string())));
}

pub fn replay_iter(rep: &mut Report, rec: &J) {
	rep.count("kind_iter_vectors");
	let s = build(&rec["orig"], 2);
	let mut it = s.iter();
	let mut yielded = vec![];
	for h in rec["hist"].as_array().unwrap() {
		let y = match h.as_str().unwrap() {
			"f" => it.next(),
			"b" => it.next_back(),
			"n1" => it.nth(1),
			"n2" => it.nth(2),
			"m1" => it.nth_back(1),
			"m2" => it.nth_back(2),
			other => tool_error(&format!("unknown iterator step {other}")),
		};
		yielded.push(json!(y.map(kind_no).unwrap_or(0)));
	}
	let (lo, hi) = it.size_hint();
	let k0 = |k: Option<Kind>| k.map(kind_no).unwrap_or(0);
	let cons = json!({"fwd": it.collect::<Vec<_>>().into_iter().map(kind_no).collect::<Vec<_>>(), "bwd": it.rev().map(kind_no).collect::<Vec<_>>(),
		"count": it.count(), "last": k0(it.last()), "min": k0(Iterator::min(it)), "max": k0(Iterator::max(it))});
	// fold / for-loop / by_ref routes see the same elements
	let mut via_fold = vec![];
	it.fold((), |_, k| via_fold.push(kind_no(k)));
	let mut via_rfold = vec![];
	it.rfold((), |_, k| via_rfold.push(kind_no(k)));
	let obs = json!({"yielded": yielded, "size_lo": lo, "size_hi": hi, "len": it.len(), "cons": cons, "fold": via_fold, "rfold": via_rfold});
	let exp = json!({"yielded": rec["yielded"], "size_lo": rec["size"], "size_hi": rec["size"], "len": rec["size"], "cons": rec["cons"],
		"fold": rec["cons"]["fwd"], "rfold": rec["cons"]["bwd"]});
	rep.count("kind_calls");
	if obs != exp {
		rep.mismatch("C20.iter", json!({"what": "iteration differs from the set's ascending order / remaining size", "vector": rec, "observed": obs}));
	}
	rep.note_distinct(hash_of(&(rec["orig"].to_string(), rec["hist"].to_string())));
	let n = rep.counters["kind_iter_vectors"];
	rep.sample(211, n, || rec.clone());
}

/// Value::kind / is_kind for one value per variant (not model generated: six cases)
pub fn check_value_kinds(rep: &mut Report) {
	let vals = [
		(Value::Null, Kind::Null),
		(Value::Boolean(true), Kind::Boolean),
		(Value::Number(0u8.into()), Kind::Number),
		(Value::String("x".into()), Kind::String),
		(Value::Array(vec![]), Kind::Array),
		(Value::Object(Default::default()), Kind::Object),
	];
	for (v, k) in vals.iter() {
		rep.count("kind_calls");
		let ok = v.kind() == *k && KINDS.iter().all(|x| v.is_kind(*x) == (x == k));
		if !ok {
			rep.mismatch("C20.value_kind", json!({"what": "kind reported for a value does not match its variant", "kind": kind_no(*k)}));
		}
	}
}

/// the accessor layer (JsonAccess.tla): every small value with the answers of kind / is_* / as_* / into_* / force_as_array /
/// take / From and of the fragment predicates.  kind and is_kind belong to C20, the rest goes beyond the listed properties.
pub fn replay_access(rep: &mut Report, rec: &J) {
	use crate::proj::{build, cps, project};
	rep.count("access_vectors");
	let v = match build(&rec["v"]) {
		Ok(v) => v,
		Err(e) => tool_error(&format!("access vector: {e}")),
	};
	let acc = &rec["acc"];
	let opt = |x: Option<J>| match x {
		Some(val) => json!({"some": true, "val": val}),
		None => json!({"some": false}),
	};
	let r = guarded(|| {
		// C20: kind / is_kind
		let kind = kind_no(v.kind());
		let is_kind: Vec<bool> = KINDS.iter().map(|k| v.is_kind(*k)).collect();
		let is = vec![v.is_null(), v.is_boolean(), v.is_number(), v.is_string(), v.is_array(), v.is_object()];
		let entries_j = |o: &json_syntax::Object| J::Array(o.iter().map(|e| json!({"k": cps(e.key.as_str()), "v": project(&e.value)})).collect());
		let items_j = |a: &[Value]| J::Array(a.iter().map(project).collect());
		// by reference
		let by_ref = json!({"kind": kind, "is": is, "empty": v.is_empty_array_or_object(),
			"bool": opt(v.as_boolean().map(|b| json!(b))), "num": opt(v.as_number().map(|n| cps(n.as_str()))),
			"str": opt(v.as_string().map(cps)), "arr": opt(v.as_array().map(items_j)), "obj": opt(v.as_object().map(entries_j)),
			"force": items_j(v.force_as_array())});
		// by mutable reference and by value, and as_str
		let mut m = v.clone();
		let by_mut = json!({"bool": opt(m.as_boolean_mut().map(|b| json!(*b))), "num": opt(m.clone().as_number_mut().map(|n| cps(n.as_str()))),
			"str": opt(m.clone().as_string_mut().map(|s| cps(s.as_str()))), "arr": opt(m.clone().as_array_mut().map(|a| items_j(a))),
			"obj": opt(m.clone().as_object_mut().map(|o| entries_j(o)))});
		let by_val = json!({"bool": opt(v.clone().into_boolean().map(|b| json!(b))), "num": opt(v.clone().into_number().map(|n| cps(n.as_str()))),
			"str": opt(v.clone().into_string().map(|s| cps(s.as_str()))), "arr": opt(v.clone().into_array().map(|a| items_j(&a))),
			"obj": opt(v.clone().into_object().map(|o| entries_j(&o)))});
		let as_str = opt(v.as_str().map(cps));
		let taken = m.take();
		let take = json!([project(&taken), project(&m)]);
		// From<payload> rebuilds the value
		let rebuilt = match &v {
			Value::Null => Value::Null,
			Value::Boolean(b) => Value::from(*b),
			Value::Number(n) => if n.as_str().len() % 2 == 0 { Value::from(n.clone()) } else { Value::from(n.as_number()) },
			Value::String(s) => match s.len() % 3 { 0 => Value::from(s.clone()), 1 => Value::from(s.as_str()), _ => Value::from(s.to_string()) },
			Value::Array(a) => Value::from(a.clone()),
			Value::Object(o) => Value::from(o.clone()),
		};
		// fragments
		let frags: Vec<J> = v.traverse().map(|(_, f)| {
			let flags = vec![f.is_entry(), f.is_key(), f.is_value(), f.is_null(), f.is_number(), f.is_string(), f.is_array(), f.is_object()];
			let s = f.strip();
			let flags2 = vec![s.is_entry(), s.is_key(), s.is_value(), s.is_null(), s.is_number(), s.is_string(), s.is_array(), s.is_object()];
			json!({"flags": flags, "arity": f.sub_fragments().count(), "strip_same": flags == flags2})
		}).collect();
		// entry accessors on every entry of every object
		let mut entry_ok = true;
		for (_, f) in v.traverse() {
			if let json_syntax::FragmentRef::Entry(e) = f {
				let (k, val) = e.as_pair();
				let r = e.as_ref();
				entry_ok &= e.as_key() == &e.key && e.as_value() == &e.value && k == &e.key && val == &e.value && *r.as_key() == &e.key && *r.as_value() == &e.value;
				let (k2, v2) = e.clone().into_pair();
				entry_ok &= k2 == e.key && v2 == e.value && e.clone().into_key() == e.key && e.clone().into_value() == e.value;
				entry_ok &= json_syntax::object::Entry::new(e.key.clone(), e.value.clone()) == *e;
			}
		}
		(kind, is_kind, by_ref, by_mut, by_val, as_str, take, rebuilt == v, frags, entry_ok)
	});
	let (kind, is_kind, by_ref, by_mut, by_val, as_str, take, rebuilt_ok, frags, entry_ok) = match r {
		Ok(x) => x,
		Err(p) => {
			rep.mismatch("X.access.panic", json!({"what": "an accessor panicked", "vector": rec, "panic": p}));
			return;
		}
	};
	rep.add("access_calls", 40);
	// C20
	let exp_is: Vec<bool> = acc["is"].as_array().unwrap().iter().map(|b| b.as_bool().unwrap()).collect();
	if json!(kind) != acc["kind"] || is_kind != exp_is {
		rep.mismatch("C20.value_kind", json!({"what": "kind / is_kind reported for a value does not match its variant", "vector": rec["v"], "kind": kind, "is_kind": is_kind}));
	}
	let exp_ref = json!({"kind": acc["kind"], "is": acc["is"], "empty": acc["empty"], "bool": acc["bool"], "num": acc["num"], "str": acc["str"], "arr": acc["arr"], "obj": acc["obj"], "force": acc["force"]});
	if by_ref != exp_ref {
		rep.mismatch("X.access.ref", json!({"what": "is_* / as_* / force_as_array differ from JsonAccess", "vector": rec["v"], "observed": by_ref, "expected": exp_ref}));
	}
	let exp_payload = json!({"bool": acc["bool"], "num": acc["num"], "str": acc["str"], "arr": acc["arr"], "obj": acc["obj"]});
	if by_mut != exp_payload || by_val != exp_payload || as_str != acc["str"] {
		rep.mismatch("X.access.payload", json!({"what": "as_*_mut / into_* / as_str differ from JsonAccess", "vector": rec["v"], "by_mut": by_mut, "by_val": by_val, "as_str": as_str}));
	}
	if take != acc["take"] {
		rep.mismatch("X.access.take", json!({"what": "take() does not return the value and leave null", "vector": rec["v"], "observed": take}));
	}
	if !rebuilt_ok {
		rep.mismatch("X.access.from", json!({"what": "From<payload> does not rebuild the value", "vector": rec["v"]}));
	}
	let exp_frags: Vec<J> = rec["frags"].as_array().unwrap().iter().map(|f| json!({"flags": f["flags"], "arity": f["arity"], "strip_same": true})).collect();
	if frags != exp_frags {
		rep.mismatch("X.access.fragments", json!({"what": "fragment predicates / arity / strip differ from JsonAccess", "vector": rec["v"], "observed": frags}));
	}
	if !entry_ok {
		rep.mismatch("X.access.entry", json!({"what": "Entry accessors disagree with the entry's fields", "vector": rec["v"]}));
	}
	rep.note_distinct(hash_of(&rec["v"].to_string()));
	let n = rep.counters["access_vectors"];
	rep.sample(4001, n, || json!({"value": rec["v"], "access": rec["acc"]}));
}
