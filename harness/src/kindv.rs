//! KindSet conformance (C20): replay of the exhaustive model.
use crate::util::*;
use json_syntax::{Kind, KindSet, Value};
use serde_json::{json, Value as J};

const KINDS: [Kind; 6] = [Kind::Null, Kind::Boolean, Kind::Number, Kind::String, Kind::Array, Kind::Object];

fn kind_no(k: Kind) -> u64 {
	KINDS.iter().position(|x| *x == k).unwrap() as u64 + 1
}

/// build a set from a list of kind numbers, alternating construction routes
fn build(s: &J, route: usize) -> KindSet {
	let mut set = KindSet::none();
	for k in s.as_array().unwrap() {
		let kind = KINDS[k.as_u64().unwrap() as usize - 1];
		match route % 3 {
			0 => set |= kind,
			1 => set = set | kind,
			_ => set = kind | set,
		}
	}
	set
}

fn members(s: KindSet) -> J {
	J::Array(s.iter().map(|k| json!(kind_no(k))).collect())
}

fn pieces(j: &J) -> String {
	j.as_array().unwrap().iter().map(|p| p.as_str().unwrap()).collect()
}

pub fn replay_set(rep: &mut Report, rec: &J) {
	rep.count("kind_set_vectors");
	for route in 0..3 {
		let s = build(&rec["s"], route);
		let obs = json!({"len": s.len(), "empty": s.is_empty(), "display": s.to_string(),
			"disj": s.as_disjunction().to_string(), "conj": s.as_conjunction().to_string(), "members": members(s)});
		let exp = json!({"len": rec["len"], "empty": rec["empty"], "display": pieces(&rec["display"]),
			"disj": pieces(&rec["disj"]), "conj": pieces(&rec["conj"]), "members": rec["s"]});
		rep.count("kind_calls");
		if obs != exp {
			rep.mismatch("C20.set", json!({"what": "length / emptiness / rendering / membership differ from set semantics", "vector": rec, "expected": exp, "observed": obs}));
		}
		// all() and none()
		if (s == KindSet::all()) != (rec["len"] == 6) || (s == KindSet::none()) != (rec["len"] == 0) {
			rep.mismatch("C20.set", json!({"what": "all()/none() disagree with the set", "vector": rec}));
		}
	}
	rep.note_distinct(hash_of(&rec["s"].to_string()));
	let n = rep.counters["kind_set_vectors"];
	rep.sample(13, n, || rec.clone());
}

pub fn replay_ops(rep: &mut Report, rec: &J) {
	rep.count("kind_ops_vectors");
	let (a, b) = (build(&rec["a"], 0), build(&rec["b"], 1));
	let mut obs = vec![];
	obs.push(("set|set", members(a | b), &rec["or"]));
	obs.push(("set&set", members(a & b), &rec["and"]));
	let mut x = a;
	x |= b;
	obs.push(("set|=set", members(x), &rec["or"]));
	let mut x = a;
	x &= b;
	obs.push(("set&=set", members(x), &rec["and"]));
	// operand combinations with a single kind (when b is a singleton / a is a singleton)
	let bl = rec["b"].as_array().unwrap();
	let al = rec["a"].as_array().unwrap();
	if bl.len() == 1 {
		let k = KINDS[bl[0].as_u64().unwrap() as usize - 1];
		obs.push(("set|kind", members(a | k), &rec["or"]));
		obs.push(("set&kind", members(a & k), &rec["and"]));
		obs.push(("kind|set", members(k | a), &rec["or"]));
		obs.push(("kind&set", members(k & a), &rec["and"]));
		let mut x = a;
		x |= k;
		obs.push(("set|=kind", members(x), &rec["or"]));
		let mut x = a;
		x &= k;
		obs.push(("set&=kind", members(x), &rec["and"]));
		if al.len() == 1 {
			let ka = KINDS[al[0].as_u64().unwrap() as usize - 1];
			obs.push(("kind|kind", members(ka | k), &rec["or"]));
			obs.push(("kind&kind", members(ka & k), &rec["and"]));
		}
	}
	for (op, got, exp) in obs {
		rep.count("kind_calls");
		if &got != exp {
			rep.mismatch("C20.ops", json!({"what": "operator result differs from set union / intersection", "op": op, "vector": rec, "observed": got}));
		}
	}
	rep.note_distinct(hash_of(&(rec["a"].to_string(), rec["b"].to_string())));
}

pub fn replay_iter(rep: &mut Report, rec: &J) {
	rep.count("kind_iter_vectors");
	let s = build(&rec["orig"], 2);
	let mut it = s.iter();
	let mut yielded = vec![];
	for h in rec["hist"].as_array().unwrap() {
		let y = match h.as_str().unwrap() {
			"f" => it.next(),
			"b" => it.next_back(),
			"n1" => it.nth(1),
			"n2" => it.nth(2),
			"m1" => it.nth_back(1),
			"m2" => it.nth_back(2),
			other => tool_error(&format!("unknown iterator step {other}")),
		};
		yielded.push(json!(y.map(kind_no).unwrap_or(0)));
	}
	let (lo, hi) = it.size_hint();
	let k0 = |k: Option<Kind>| k.map(kind_no).unwrap_or(0);
	let cons = json!({"fwd": it.collect::<Vec<_>>().into_iter().map(kind_no).collect::<Vec<_>>(), "bwd": it.rev().map(kind_no).collect::<Vec<_>>(),
		"count": it.count(), "last": k0(it.last()), "min": k0(Iterator::min(it)), "max": k0(Iterator::max(it))});
	// fold / for-loop / by_ref routes see the same elements
	let mut via_fold = vec![];
	it.fold((), |_, k| via_fold.push(kind_no(k)));
	let mut via_rfold = vec![];
	it.rfold((), |_, k| via_rfold.push(kind_no(k)));
	let obs = json!({"yielded": yielded, "size_lo": lo, "size_hi": hi, "len": it.len(), "cons": cons, "fold": via_fold, "rfold": via_rfold});
	let exp = json!({"yielded": rec["yielded"], "size_lo": rec["size"], "size_hi": rec["size"], "len": rec["size"], "cons": rec["cons"],
		"fold": rec["cons"]["fwd"], "rfold": rec["cons"]["bwd"]});
	rep.count("kind_calls");
	if obs != exp {
		rep.mismatch("C20.iter", json!({"what": "iteration differs from the set's ascending order / remaining size", "vector": rec, "observed": obs}));
	}
	rep.note_distinct(hash_of(&(rec["orig"].to_string(), rec["hist"].to_string())));
	let n = rep.counters["kind_iter_vectors"];
	rep.sample(211, n, || rec.clone());
}

/// Value::kind / is_kind for one value per variant (not model generated: six cases)
pub fn check_value_kinds(rep: &mut Report) {
	let vals = [
		(Value::Null, Kind::Null),
		(Value::Boolean(true), Kind::Boolean),
		(Value::Number(0u8.into()), Kind::Number),
		(Value::String("x".into()), Kind::String),
		(Value::Array(vec![]), Kind::Array),
		(Value::Object(Default::default()), Kind::Object),
	];
	for (v, k) in vals.iter() {
		rep.count("kind_calls");
		let ok = v.kind() == *k && KINDS.iter().all(|x| v.is_kind(*x) == (x == k));
		if !ok {
			rep.mismatch("C20.value_kind", json!({"what": "kind reported for a value does not match its variant", "kind": kind_no(*k)}));
		}
	}
}
