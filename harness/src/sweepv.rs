//! Exhaustive sweeps over huge finite domains, run-compressed (C02, C08, C01, C12).
use crate::parsev::project_err;
use crate::util::*;
use json_syntax::object::Entry;
use json_syntax::parse::Options;
use json_syntax::{Parse, Print, Value};
use serde_json::{json, Value as J};

type Tuple = (String, Vec<i64>);

fn parse_tuple(text: &str, o: Options, in_key: bool) -> Tuple {
	match guarded(|| Value::parse_str_with(text, o)) {
		Err(_) => ("panic".into(), vec![-1, -1, -1]),
		Ok(Ok((v, _))) => {
			let s: Option<String> = if in_key { v.as_object().and_then(|ob| ob.first()).map(|e| e.key.to_string()) } else { v.as_str().map(|s| s.to_string()) };
			match s {
				Some(s) => {
					let cs: Vec<char> = s.chars().collect();
					("ok".into(), vec![cs.len() as i64, cs.first().map(|c| *c as i64).unwrap_or(-1), cs.get(1).map(|c| *c as i64).unwrap_or(-1)])
				}
				None => ("not_a_string".into(), vec![-1, -1, -1]),
			}
		}
		Ok(Err(e)) => {
			let j = project_err(&e);
			match j["kind"].as_str().unwrap() {
				"unexpected" => ("unexpected".into(), vec![j["pos"].as_i64().unwrap(), j["ch"].as_i64().unwrap(), -1]),
				"surrogate" => (j["variant"].as_str().unwrap().into(), vec![j["units"][0].as_i64().unwrap(), j["units"].get(1).and_then(|u| u.as_i64()).unwrap_or(-1), -1]),
				k => (k.into(), vec![-1, -1, -1]),
			}
		}
	}
}

/// outcome tuple of a whole document (Sweeps!DocTuple): fragments and the span of the last one, or the error
fn doc_tuple(text: &str, slice: bool) -> Tuple {
	let r = if slice { guarded(|| Value::parse_slice(text.as_bytes())) } else { guarded(|| Value::parse_str(text)) };
	match r {
		Err(_) => ("panic".into(), vec![-1, -1, -1]),
		Ok(Ok((_, cm))) => {
			let n = cm.len();
			match cm.as_slice().last() {
				Some(e) => ("ok".into(), vec![n as i64, e.span.start() as i64, e.span.end() as i64]),
				None => ("ok".into(), vec![0, -1, -1]),
			}
		}
		Ok(Err(e)) => {
			let j = project_err(&e);
			match j["kind"].as_str().unwrap() {
				"unexpected" => ("unexpected".into(), vec![j["pos"].as_i64().unwrap(), j["ch"].as_i64().unwrap(), -1]),
				"surrogate" => (j["variant"].as_str().unwrap().into(), vec![j["units"][0].as_i64().unwrap(), j["units"].get(1).and_then(|u| u.as_i64()).unwrap_or(-1), -1]),
				k => (k.into(), vec![-1, -1, -1]),
			}
		}
	}
}

fn hex4(x: u32, upper: bool) -> String {
	if upper {
		format!("{:04X}", x)
	} else {
		format!("{:04x}", x)
	}
}

fn pad(s: &str, n: usize) -> Vec<i64> {
	let mut v: Vec<i64> = s.chars().map(|c| c as i64).collect();
	v.resize(n.max(v.len()), -1);
	v
}

struct Sweep {
	sw: J,
	lo: u32,
	hi: u32,
	f: Box<dyn Fn(u32) -> Option<Tuple>>,
}

fn opts(t: bool, i: bool) -> Options {
	Options { accept_truncated_surrogate_pair: t, accept_invalid_codepoints: i }
}

fn sweeps(thorough: bool) -> Vec<Sweep> {
	let mut v: Vec<Sweep> = vec![];
	let ch = |x: u32| char::from_u32(x);
	for (t, i) in [(false, false), (true, true)] {
		let o = opts(t, i);
		v.push(Sweep { sw: json!(["raw_str", t, i]), lo: 0, hi: 0x10ffff, f: Box::new(move |x| ch(x).map(|c| parse_tuple(&format!("\"{c}\""), o, false))) });
		v.push(Sweep { sw: json!(["esc_ascii", t, i]), lo: 0, hi: 127, f: Box::new(move |x| ch(x).map(|c| parse_tuple(&format!("\"\\{c}\""), o, false))) });
	}
	v.push(Sweep { sw: json!(["raw_key", false, false]), lo: 0, hi: 0x10ffff, f: Box::new(move |x| ch(x).map(|c| parse_tuple(&format!("{{\"{c}\":0}}"), opts(false, false), true))) });
	for (t, i) in [(false, false), (true, false), (false, true), (true, true)] {
		for upper in [false, true] {
			let o = opts(t, i);
			v.push(Sweep { sw: json!(["esc_u", t, i, upper]), lo: 0, hi: 0xffff, f: Box::new(move |x| Some(parse_tuple(&format!("\"\\u{}\"", hex4(x, upper)), o, false))) });
		}
	}
	v.push(Sweep { sw: json!(["esc_u_key", false, false, false]), lo: 0, hi: 0xffff, f: Box::new(move |x| Some(parse_tuple(&format!("{{\"\\u{}\":0}}", hex4(x, false)), opts(false, false), true))) });
	// a fixed first escape followed by every second escape; every first escape followed by a fixed second one
	let firsts: &[u32] = if thorough { &[0xd800, 0xd801, 0xd842, 0xdbff, 0xdc00, 0x0041, 0xd7ff, 0xe000] } else { &[0xd800, 0xd842, 0xdbff, 0xdc00] };
	for &first in firsts {
		for (t, i) in [(false, false), (true, true)] {
			let o = opts(t, i);
			v.push(Sweep { sw: json!(["esc_pair", t, i, true, first]), lo: 0, hi: 0xffff, f: Box::new(move |x| Some(parse_tuple(&format!("\"\\u{}\\u{}\"", hex4(first, true), hex4(x, false)), o, false))) });
		}
	}
	let seconds: &[u32] = if thorough { &[0xdc00, 0xdc01, 0xdfb7, 0xdfff, 0xd800, 0x0041, 0xfc00] } else { &[0xdc00, 0xdfff, 0xfc00] };
	for &second in seconds {
		let o = opts(false, false);
		v.push(Sweep { sw: json!(["esc_pair2", false, false, false, second]), lo: 0, hi: 0xffff, f: Box::new(move |x| Some(parse_tuple(&format!("\"\\u{}\\u{}\"", hex4(x, false), hex4(second, false)), o, false))) });
	}
	// every scalar in each of the four hex-digit positions of a \uXXXX escape
	for pos in 1..=4usize {
		v.push(Sweep {
			sw: json!(["esc_hexchar", pos]),
			lo: 0,
			hi: if thorough || pos == 4 { 0x10ffff } else { 0x2fff },
			f: Box::new(move |x| {
				ch(x).map(|c| {
					let mut d: Vec<char> = vec!['0', '0', '4', '1'];
					d[pos - 1] = c;
					parse_tuple(&format!("\"\\u{}\"", d.iter().collect::<String>()), opts(false, false), false)
				})
			}),
		});
	}
	// all 1,048,576 surrogate pairs: the decoded scalar
	v.push(Sweep {
		sw: json!(["combine"]),
		lo: 0,
		hi: 1024 * 1024 - 1,
		f: Box::new(move |x| {
			let (h, l) = (0xd800 + x / 1024, 0xdc00 + x % 1024);
			Some(parse_tuple(&format!("\"\\u{:04x}\\u{:04X}\"", h, l), opts(false, false), false))
		}),
	});
	// compact printing of every scalar as a one-character string and key
	v.push(Sweep { sw: json!(["print_str"]), lo: 0, hi: 0x10ffff, f: Box::new(move |x| ch(x).map(|c| ("text".to_string(), pad(&Value::String(c.to_string().into()).compact_print().to_string(), 9)))) });
	v.push(Sweep {
		sw: json!(["print_key"]),
		lo: 0,
		hi: 0x10ffff,
		f: Box::new(move |x| {
			ch(x).map(|c| {
				let o: json_syntax::Object = vec![Entry::new(c.to_string().as_str().into(), Value::Null)].into_iter().collect();
				("text".to_string(), pad(&Value::Object(o).to_string(), 16))
			})
		}),
	});
	// every scalar in each syntactic context, through the string and the byte-slice entry points
	let contexts: [(&str, &str, &str); 15] = [
		("str_then_item", "[\"", "\",1]"), ("after_int", "[1", "]"), ("value_start", "[", "]"), ("after_comma", "[1,", "]"), ("after_key", "{\"a\"", ":1}"),
		("after_member", "{\"a\":1", "}"), ("in_literal", "[tru", "]"), ("after_minus", "[-", "]"), ("after_point", "[1.", "5]"), ("after_exp", "[1e", "1]"),
		("after_zero", "[0", "]"), ("top", "", ""), ("after_top_num", "1", ""), ("after_top_val", "[]", ""), ("obj_start", "{", "}"),
	];
	for (name, pre, post) in contexts {
		for slice in [false, true] {
			// the slice entry point for the contexts where byte positions matter most; the string entry point for all
			if slice && !matches!(name, "str_then_item" | "after_int" | "top" | "after_key") {
				continue;
			}
			v.push(Sweep { sw: json!(["ctx", name, slice]), lo: 0, hi: if thorough || !slice { 0x10ffff } else { 0x2ffff }, f: Box::new(move |x| ch(x).map(|c| doc_tuple(&format!("{pre}{c}{post}"), slice))) });
		}
	}
	// compact text of a string / key beyond the inline capacity, through String::from and to_string
	v.push(Sweep { sw: json!(["print_long_str"]), lo: 0, hi: 0x10ffff, f: Box::new(move |x| ch(x).map(|c| {
		let t: String = Value::String(format!("aaaaaaaaaaaaaaaaaaaa{c}").into()).into();
		("text".to_string(), pad(&t.chars().skip(21).collect::<String>(), 9))
	})) });
	v.push(Sweep { sw: json!(["print_long_key"]), lo: 0, hi: 0x10ffff, f: Box::new(move |x| ch(x).map(|c| {
		let o: json_syntax::Object = vec![Entry::new(format!("aaaaaaaaaaaaaaaaaaaa{c}").as_str().into(), Value::Null)].into_iter().collect();
		("text".to_string(), pad(&Value::Object(o).to_string().chars().skip(22).collect::<String>(), 14))
	})) });
	// x ordinary characters, then one character that needs an escape (or several bytes): every position up to 300
	for c in [1u32, 0x1f, 0x22, 0x5c, 0x0a, 0xe9, 0x20ac, 0x1f600] {
		v.push(Sweep { sw: json!(["print_pad", c]), lo: 0, hi: 300, f: Box::new(move |x| {
			let mut s = "a".repeat(x as usize);
			s.push(char::from_u32(c).unwrap());
			match guarded(|| Value::String(s.as_str().into()).compact_print().to_string()) {
				Ok(t) => {
					let cs: Vec<char> = t.chars().collect();
					let mut tail: Vec<i64> = cs.iter().skip(x as usize + 1).map(|c| *c as i64).collect();
					tail.resize(8, -1);
					let mut p = vec![cs.len() as i64];
					p.extend(tail);
					Some(("tail".to_string(), p))
				}
				Err(_) => Some(("panic".to_string(), vec![-1; 9])),
			}
		}) });
	}
	// Context::follows for the four contexts, and the whitespace predicate
	v.push(Sweep { sw: json!(["follows"]), lo: 0, hi: 0x10ffff, f: Box::new(move |x| ch(x).map(|c| {
		use json_syntax::parse::Context;
		let b = |x: bool| x as i64;
		("follows".to_string(), vec![b(Context::None.follows(c)), b(Context::Array.follows(c)), b(Context::ObjectKey.follows(c)), b(Context::ObjectValue.follows(c)), b(json_syntax::parse::is_whitespace(c))])
	})) });
	// the width attributed to every scalar by the layout decision: the smallest Limit::Width under which the one-line
	// form is kept (scanned upwards from 4: no one-character string in brackets is narrower than 5)
	fn min_inline(v: &Value, obj: bool) -> i64 {
		for t in 4..=40usize {
			let mut o = json_syntax::print::Options::compact();
			if obj {
				o.object_limit = Some(json_syntax::print::Limit::Width(t));
			} else {
				o.array_limit = Some(json_syntax::print::Limit::Width(t));
			}
			match guarded(|| v.print_with(o).to_string()) {
				Ok(s) if !s.contains('\n') => return t as i64,
				Ok(_) => (),
				Err(_) => return -2,
			}
		}
		-1
	}
	v.push(Sweep { sw: json!(["width_str"]), lo: 0, hi: 0x10ffff, f: Box::new(move |x| ch(x).map(|c| ("width".to_string(), vec![min_inline(&Value::Array(vec![Value::String(c.to_string().into())]), false)]))) });
	v.push(Sweep {
		sw: json!(["width_key"]),
		lo: 0,
		hi: 0x10ffff,
		f: Box::new(move |x| {
			ch(x).map(|c| {
				let o: json_syntax::Object = vec![Entry::new(c.to_string().as_str().into(), Value::Null)].into_iter().collect();
				("width".to_string(), vec![min_inline(&Value::Object(o), true)])
			})
		}),
	});
	v
}

pub fn record(args: &Args) {
	let thorough = args.get("tier") == Some("thorough");
	let only = args.get("only");
	let out = args.get("out").unwrap_or_else(|| tool_error("sweep: --out required"));
	let mode = if thorough { "all" } else { "sample" };
	let mut lines: Vec<J> = vec![];
	let mut elements = 0u64;
	for s in sweeps(thorough) {
		if let Some(names) = only {
			if !names.split(',').any(|n| s.sw[0] == n) {
				continue;
			}
		}
		// the surrogate-pair sweep (1M parses of 14 characters) is evaluated by the specification in
		// arithmetic form ("combine"): always exhaustive on both sides
		let m = if s.sw[0] == "combine" { "all" } else { mode };
		// current run: lo, hi, tag, first tuple, and per parameter the slope once decided (0 or 1)
		let mut cur: Option<(u32, u32, String, Vec<i64>, Vec<Option<i64>>)> = None;
		let flush = |cur: &mut Option<(u32, u32, String, Vec<i64>, Vec<Option<i64>>)>, lines: &mut Vec<J>| {
			if let Some((lo, hi, tag, first, slope)) = cur.take() {
				let coef: Vec<J> = first.iter().zip(slope.iter()).map(|(p, a)| {
					let a = a.unwrap_or(if *p == lo as i64 { 1 } else { 0 });
					json!([a, p - a * lo as i64])
				}).collect();
				lines.push(json!({"ev": "run", "sw": s.sw, "lo": lo, "hi": hi, "tag": tag, "coef": coef, "mode": m}));
			}
		};
		for x in s.lo..=s.hi {
			let t = match (s.f)(x) {
				Some(t) => t,
				None => {
					// not in the domain (surrogate code points are not characters)
					flush(&mut cur, &mut lines);
					continue;
				}
			};
			elements += 1;
			let mut extended = false;
			if let Some((lo, hi, tag, first, slope)) = cur.as_mut() {
				if *hi + 1 == x && *tag == t.0 && first.len() == t.1.len() {
					let dx = (x - *lo) as i64;
					let mut ok = true;
					let mut newslope = slope.clone();
					for k in 0..first.len() {
						let dp = t.1[k] - first[k];
						match slope[k] {
							Some(a) => ok &= dp == a * dx,
							None => {
								if dp == 0 {
									newslope[k] = Some(0)
								} else if dp == dx {
									newslope[k] = Some(1)
								} else {
									ok = false
								}
							}
						}
					}
					if ok {
						*slope = newslope;
						*hi = x;
						extended = true;
					}
				}
			}
			if !extended {
				flush(&mut cur, &mut lines);
				let nparams = t.1.len();
				cur = Some((x, x, t.0, t.1, vec![None; nparams]));
			}
		}
		flush(&mut cur, &mut lines);
	}
	use std::io::Write;
	let mut f = std::fs::File::create(out).unwrap_or_else(|e| tool_error(&format!("create {out}: {e}")));
	for l in &lines {
		writeln!(f, "{}", l).unwrap();
	}
	println!("SUMMARY {}", json!({"events": lines.len(), "elements": elements, "samples": lines.iter().take(3).collect::<Vec<_>>()}));
}
