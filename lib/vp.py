"""Orchestration helpers: run TLC, run the Rust harness, collect evidence.

Exit-code discipline (DESIGN section 10):
  0  property held on everything explored (known findings are printed, not failed)
  1  VIOLATION property=<id> replay=<path>   (a violation not listed in known_findings.json)
  2  tool error (TLC crash / parse error / timeout, cargo failure, malformed stream ...)
"""
import glob
import shutil
import hashlib
import json
import os
import re
import subprocess
import sys
import time

ROOT = os.path.dirname(os.path.dirname(os.path.abspath(__file__)))
WORK = os.path.join(ROOT, 'work')
SPEC = os.path.join(ROOT, 'spec')
HARNESS = os.path.join(ROOT, 'harness')
JSV = os.path.join(HARNESS, 'target', 'release', 'jsv')
TLA_CP = '/opt/veriftools/tla/tla2tools.jar:/opt/veriftools/tla/CommunityModules-deps.jar'
TLA_LIB = ':'.join([SPEC, os.path.join(SPEC, 'mc'), os.path.join(SPEC, 'trace')])


class ToolError(Exception):
    pass


class HarnessCrash(ToolError):
    """the harness process died (abort / signal): the code under test brought the process down"""


class HarnessHang(ToolError):
    """a call into the code under test did not return within the time budget (harness exit 98)"""
    def __init__(self, msg, info):
        super().__init__(msg)
        self.info = info


def log(*a):
    print(*a, file=sys.stderr, flush=True)


def seed():
    try:
        return int(os.environ.get('VERIF_SEED', '1'))
    except ValueError:
        return 1


# --------------------------------------------------------------------------- harness

_built = False


def build_harness():
    """(Re)build the harness against /repo's current working tree (incremental)."""
    global _built
    if _built:
        return
    t0 = time.time()
    env = dict(os.environ, CARGO_NET_OFFLINE='true')
    p = subprocess.run(['cargo', 'build', '--release', '--offline', '--quiet'], cwd=HARNESS, env=env,
                       stdout=subprocess.PIPE, stderr=subprocess.PIPE, text=True)
    if p.returncode != 0:
        errs = [l for l in p.stderr.splitlines() if l.startswith('error') or '-->' in l][:40]
        raise ToolError('cargo build of the harness failed:\n' + '\n'.join(errs or p.stderr.splitlines()[-40:]))
    _built = True
    log(f'[build] harness built in {time.time() - t0:.1f}s')


_built_debug = False


def build_harness_debug():
    """An UNOPTIMISED build of the harness and of the crate (what `cargo test` / a debug build of a user runs): no inlining,
    no tail-call elimination, overflow checks on.  Used for the children that parse inside a small fixed stack (C03)."""
    global _built_debug
    path = os.path.join(HARNESS, 'target', 'debug', 'jsv')
    if _built_debug:
        return path
    t0 = time.time()
    env = dict(os.environ, CARGO_NET_OFFLINE='true')
    p = subprocess.run(['cargo', 'build', '--offline', '--quiet'], cwd=HARNESS, env=env, stdout=subprocess.PIPE, stderr=subprocess.PIPE, text=True)
    if p.returncode != 0 or not os.path.exists(path):
        errs = [l for l in p.stderr.splitlines() if l.startswith('error') or '-->' in l][:40]
        raise ToolError('cargo build (debug profile) of the harness failed:\n' + '\n'.join(errs or p.stderr.splitlines()[-40:]))
    _built_debug = True
    log(f'[build] harness (debug profile) built in {time.time() - t0:.1f}s')
    return path


def _limit_address_space():
    """a harness process may not take the machine down: code under test that allocates without bound fails its
    allocation (the process aborts, which is data) instead of driving every other process into the OOM killer"""
    try:
        import resource
        lim = 48 << 30
        resource.setrlimit(resource.RLIMIT_AS, (lim, lim))
    except Exception:
        pass


def memory_stall_us():
    """microseconds some task of the machine spent stalled on memory (PSI), or None"""
    try:
        for line in open('/proc/pressure/memory'):
            if line.startswith('some'):
                return int(line.split('total=')[1])
    except Exception:
        return None


def jsv(args, timeout=3600, stdin=None, seed_offset=0, debug=False):
    """Run a harness subcommand; returns the parsed SUMMARY record.  debug: the unoptimised build (overflow checks and
    debug assertions on, nothing inlined)."""
    build_harness()
    exe = build_harness_debug() if debug else JSV
    env = dict(os.environ, VERIF_SEED=str(seed() + seed_offset))
    t0 = time.time()
    try:
        p = subprocess.run([exe] + [str(a) for a in args], stdout=subprocess.PIPE, stderr=subprocess.PIPE,
                           text=True, timeout=timeout, env=env, input=stdin, preexec_fn=_limit_address_space)
    except subprocess.TimeoutExpired:
        raise ToolError(f'harness timed out: jsv {" ".join(map(str, args))}')
    summary = None
    for line in p.stdout.split('\n'):
        if line.startswith('SUMMARY '):
            summary = json.loads(line[8:])
    if p.returncode == 98:
        info = {}
        for line in p.stdout.split('\n'):
            if line.startswith('HANG '):
                try:
                    info = json.loads(line[5:])
                except ValueError:
                    info = {'context': line[5:300]}
        raise HarnessHang(f'a call into the code under test did not return: jsv {" ".join(map(str, args))}', info)
    if p.returncode < 0 or p.returncode in (101, 134, 139):
        raise HarnessCrash(f'harness crashed (exit {p.returncode}): jsv {" ".join(map(str, args))}\n' + p.stderr[-600:])
    if p.returncode != 0 or summary is None:
        raise ToolError(f'harness failed (exit {p.returncode}): jsv {" ".join(map(str, args))}\n'
                        + p.stderr[-3000:] + p.stdout[-1000:])
    summary['wall_s'] = round(time.time() - t0, 2)
    return summary


# --------------------------------------------------------------------------- TLC

_MOD_FILES = None


def _module_files():
    global _MOD_FILES
    if _MOD_FILES is None:
        _MOD_FILES = {os.path.basename(f)[:-4]: f for f in glob.glob(os.path.join(SPEC, '**', '*.tla'), recursive=True)}
    return _MOD_FILES


def _closure(text, seen):
    """specification modules reachable from `text` through EXTENDS / INSTANCE"""
    files = _module_files()
    names = []
    for m in re.finditer(r'^\s*EXTENDS\s+([^\n]+)', text, re.M):
        names += [x.strip() for x in m.group(1).split(',')]
    names += re.findall(r'INSTANCE\s+(\w+)', text)
    for n in names:
        if n in files and n not in seen:
            seen.add(n)
            _closure(open(files[n]).read(), seen)
    return seen


def _spec_digest(module_text=None):
    """digest of the specification modules a generated instance depends on (all of them if unknown)"""
    h = hashlib.sha256()
    files = _module_files()
    names = sorted(_closure(module_text, set())) if module_text else sorted(files)
    for n in names:
        h.update(n.encode())
        h.update(open(files[n], 'rb').read())
    return h


def instance_module(name, base, consts):
    """A module that EXTENDS `base` and defines one operator per constant."""
    lines = [f'---- MODULE {name} ----', f'EXTENDS {base}']
    for k, v in consts.items():
        lines.append(f'c_{k} == {v}')
    lines.append('====')
    return '\n'.join(lines) + '\n'


def instance_cfg(consts, plain, invariants, spec='TSpec', extra=()):
    lines = [f'SPECIFICATION {spec}', 'CONSTANTS']
    for k in consts:
        lines.append(f'  {k} <- c_{k}')
    for k, v in plain.items():
        lines.append(f'  {k} = {v}')
    for inv in invariants:
        lines.append(f'INVARIANT {inv}')
    lines.extend(extra)
    lines.append('CHECK_DEADLOCK FALSE')
    return '\n'.join(lines) + '\n'


_SUMMARY_RE = re.compile(r'(\d+) states generated, (\d+) distinct states found, (\d+) states left on queue')
_DEPTH_RE = re.compile(r'The depth of the complete state graph search is (\d+)')


def _park(tmpdir, name):
    """move the private directory of a run that did not complete out of the cache area"""
    failed = os.path.join(WORK, 'tlc', name)
    shutil.rmtree(failed, ignore_errors=True)
    os.makedirs(os.path.dirname(failed), exist_ok=True)
    try:
        os.rename(tmpdir, failed)
    except OSError:
        return tmpdir
    return failed


def tlc(name, module_text, cfg_text, workers=8, timeout=1200, heap='8g', cache=True, props=(), env=None,
        simulate=None, coverage=False, depth=None):
    """Run TLC on a generated instance module.  Returns a dict with the output
    path and the parsed summary.  Results of model-checking runs (which depend
    only on the specification, never on /repo) are cached under work/cache by a
    digest of every spec file, the instance and the arguments."""
    m = re.search(r'MODULE (\w+)', module_text)
    modname = m.group(1)
    key = None
    if cache and env is None:
        h = _spec_digest(module_text)
        h.update(module_text.encode())
        h.update(cfg_text.encode())
        h.update(repr((props, simulate, coverage, depth)).encode())
        key = h.hexdigest()[:24]
        cdir = os.path.join(WORK, 'cache', key)
        meta = os.path.join(cdir, 'meta.json')
        if os.path.exists(meta):
            r = json.load(open(meta))
            r['cached'] = True
            log(f'[tlc] {name}: cached ({r["distinct"]} distinct states)')
            return r
        # computed in a private directory and renamed into place when complete: two checks that need the same instance at the
        # same time never see each other's half-written output
        final_dir = cdir
        cdir = f'{cdir}.tmp{os.getpid()}'
        shutil.rmtree(cdir, ignore_errors=True)
    else:
        final_dir = None
        cdir = os.path.join(WORK, 'tlc', name)
    os.makedirs(cdir, exist_ok=True)
    tla = os.path.join(cdir, modname + '.tla')
    cfg = os.path.join(cdir, modname + '.cfg')
    out = os.path.join(cdir, 'out.txt')
    open(tla, 'w').write(module_text)
    open(cfg, 'w').write(cfg_text)
    cmd = ['java', '-Xss1g', f'-Xmx{heap}', '-XX:+UseParallelGC', f'-DTLA-Library={TLA_LIB}']
    cmd += [f'-D{p}' for p in props]
    cmd += ['-cp', TLA_CP, 'tlc2.TLC', '-workers', str(workers), '-config', cfg,
            '-metadir', os.path.join(cdir, 'md'), '-cleanup', '-noGenerateSpecTE']
    if coverage:
        cmd += ['-coverage', '1']
    if simulate:
        cmd += ['-simulate', simulate]
    if depth:
        cmd += ['-depth', str(depth)]
    cmd += [tla]
    t0 = time.time()
    e = dict(os.environ)
    if env:
        e.update(env)
    try:
        with open(out, 'w') as f:
            p = subprocess.run(cmd, stdout=f, stderr=subprocess.STDOUT, timeout=timeout, env=e, cwd=cdir)
    except subprocess.TimeoutExpired:
        if final_dir is not None:
            _park(cdir, name)
        raise ToolError(f'TLC timed out after {timeout}s on {name}')
    wall = time.time() - t0
    r = {'name': name, 'out': out, 'module': tla, 'cfg': cfg, 'wall_s': round(wall, 2), 'cached': False,
         'generated': 0, 'distinct': 0, 'depth': 0, 'ok': False, 'violation': None, 'exit': p.returncode}
    tail = []
    with open(out, errors='replace') as f:
        for line in f:
            if line.startswith('"{'):
                continue
            tail.append(line.rstrip('\n'))
            if len(tail) > 400:
                tail = tail[-300:]
            mm = _SUMMARY_RE.search(line)
            if mm:
                r['generated'], r['distinct'] = int(mm.group(1)), int(mm.group(2))
            mm = _DEPTH_RE.search(line)
            if mm:
                r['depth'] = int(mm.group(1))
            if 'Invariant' in line and 'is violated' in line:
                r['violation'] = line.strip()
            if line.startswith('Error:') and r['violation'] is None and 'violated' in line:
                r['violation'] = line.strip()
    r['tail'] = tail[-60:]
    text = '\n'.join(tail)
    r['ok'] = (p.returncode == 0 and 'Model checking completed. No error has been found.' in text) or \
              (simulate is not None and p.returncode == 0)
    if not r['ok'] and r['violation'] is None:
        if final_dir is not None:
            out = out.replace(cdir, _park(cdir, name), 1)
        raise ToolError(f'TLC failed on {name} (exit {p.returncode}); see {out}\n' + '\n'.join(tail[-25:]))
    if final_dir is not None:
        if r['ok']:
            for k in ('out', 'module', 'cfg'):
                r[k] = r[k].replace(cdir, final_dir, 1)
            json.dump(r, open(os.path.join(cdir, 'meta.json'), 'w'))
            try:
                os.rename(cdir, final_dir)
            except OSError:
                # somebody else completed the same instance meanwhile: use theirs
                shutil.rmtree(cdir, ignore_errors=True)
                r = json.load(open(os.path.join(final_dir, 'meta.json')))
        else:
            # keep the failed run where it can be inspected (not as a cache entry)
            failed = _park(cdir, name)
            for k in ('out', 'module', 'cfg'):
                r[k] = r[k].replace(cdir, failed, 1)
    log(f'[tlc] {name}: {r["generated"]} generated, {r["distinct"]} distinct, depth {r["depth"]}, '
        f'{wall:.1f}s' + ('' if r['ok'] else f'  !! {r["violation"]}'))
    return r


def tlc_lines(path, prefix):
    """Lines of a TLC output file that start with `prefix` (e.g. user output markers)."""
    with open(path, errors='replace') as f:
        for line in f:
            if line.startswith(prefix):
                yield line.rstrip('\n')


def unquote_tlc(line):
    """A TLC-printed string value -> python str; a printed JSON string record -> object."""
    s = json.loads(line)
    return json.loads(s)


# --------------------------------------------------------------------------- evidence / findings

def load_known():
    p = os.path.join(ROOT, 'known_findings.json')
    if not os.path.exists(p):
        return {'findings': [], 'fixed': []}
    return json.load(open(p))


def finding_matches(f, aspect, detail):
    """A known finding matches a mismatch when every key of its `match` record
    is found (by equality, or regex for keys ending in `_re`) in the mismatch."""
    m = f.get('match', {})
    flat = dict(detail) if isinstance(detail, dict) else {}
    flat['aspect'] = aspect
    if isinstance(detail, dict) and isinstance(detail.get('input'), dict):
        for k, v in detail['input'].items():
            flat.setdefault('input.' + k, v)
    for k, v in m.items():
        if k.endswith('_re'):
            if not re.search(v, str(flat.get(k[:-3], ''))):
                return False
        elif flat.get(k) != v:
            return False
    return True


def write_evidence(pid, tier, coverage, assumptions, wall_s, violations, level='model_checking'):
    os.makedirs(os.path.join(ROOT, 'evidence'), exist_ok=True)
    ev = {'property_id': pid, 'tier': tier, 'seed': seed(), 'level': level, 'coverage': coverage,
          'assumptions': assumptions, 'wall_s': round(wall_s, 2), 'violations': violations}
    path = os.path.join(ROOT, 'evidence', f'{pid}.json')
    tmp = path + '.tmp'
    json.dump(ev, open(tmp, 'w'), indent=1)
    os.replace(tmp, path)
    return path
