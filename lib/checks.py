"""Per-property check pipelines.  Every pipeline is a function(ctx) that runs
model checking (TLC), spec->impl replay and impl->spec trace validation and
records everything in ctx (a Check object)."""
import json
import os
import time

import models
import vp
from vp import ToolError, log


class RecorderAborted(Exception):
    """raised after the abort has been registered as a mismatch: the pipeline stops and concludes"""


class Check:
    def __init__(self, pid, tier):
        self.pid = pid
        self.tier = tier
        self.t0 = time.time()
        self.tlc_runs = []          # summaries of TLC model-checking runs
        self.replays = []           # summaries of harness replay runs
        self.traces = []            # summaries of trace validations
        self.mismatches = []        # (aspect, detail) attributed to this property
        self.ext = []               # deviations from the parts of the specification that go beyond the listed properties (aspects X..)
        self.samples = []
        self.notes = []
        self.assumptions = []
        self.extra = {}
        self.exhaustive = False

    @property
    def quick(self):
        return self.tier == 'quick'

    def workdir(self, *parts):
        d = os.path.join(vp.WORK, self.pid, *parts)
        os.makedirs(d, exist_ok=True)
        return d

    # -- building blocks -----------------------------------------------------
    def mc(self, name, base, consts, plain, invariants, spec='TSpec', workers=8, timeout=1500, extra=(),
           must_hold=True, **kw):
        inst = f'MCI_{name}'
        mod = vp.instance_module(inst, base, consts)
        cfg = vp.instance_cfg(consts, plain, invariants, spec=spec, extra=extra)
        r = vp.tlc(f'{name}', mod, cfg, workers=workers, timeout=timeout, **kw)
        r['instance'] = name
        r['invariants'] = list(invariants)
        self.tlc_runs.append(r)
        if not r['ok'] and must_hold:
            # the specification itself violates one of its design-level invariants:
            # that is an error of the machinery, never a violation of the code
            raise ToolError(f'specification instance {name} violates {r["violation"]}; see {r["out"]}')
        return r

    def replay(self, files, aspects, label='replay', extra_args=(), debug=False):
        """Replay spec-generated vectors into the real code.  `aspects`: prefixes of
        the mismatch aspects that belong to this property (e.g. 'C01.')."""
        out = os.path.join(self.workdir(), f'{label}.mismatches.ndjson')
        try:
            s = self._confirmed(lambda: vp.jsv(['replay'] + list(files) + ['--out', out] + list(extra_args), debug=debug), 'replay ' + label)
        except vp.HarnessHang as e:
            self._hang(e, 'replay ' + label)
            raise RecorderAborted()
        except vp.HarnessCrash as e:
            log(f'[replay] harness process died, isolating the vector(s) that bring it down: {str(e)[:200]}')
            s = self._isolated_replay(files, out, extra_args)
        s['label'] = label
        self.replays.append(s)
        self._collect(out, aspects)
        for smp in s.get('samples', [])[:3]:
            self.samples.append(smp)
        return s

    def _confirmed(self, run, what):
        """A hang (or, for a recorder, the death of the process) counts only if it happens AGAIN when the same deterministic run is
        repeated: the code under test hanging or aborting is reproducible, a machine that stalls (another process exhausting the
        memory, the OOM killer picking the harness) is not.  The first failure is logged, the second one is raised."""
        try:
            return run()
        except (vp.HarnessHang, vp.HarnessCrash) as e:
            if isinstance(e, vp.HarnessCrash) and what.startswith('replay'):
                raise                   # replays confirm a crash by isolating the vector in fresh processes
            log(f'[{what}] {type(e).__name__} - repeating the run once to tell the code under test from the machine '
                f'(memory stall so far: {vp.memory_stall_us()} us)')
            self.extra.setdefault('unconfirmed_harness_failures', []).append({'what': what, 'kind': type(e).__name__})
            r = run()
            log(f'[{what}] the repeated run completed: the first failure was the machine, not the code under test')
            return r

    def _hang(self, e, where):
        """non-termination of the code under test is data: the specification gives every call a result"""
        ctxt = e.info.get('context', '')
        vec = None
        try:
            vec = vp.unquote_tlc(ctxt) if ctxt.startswith('"') else json.loads(ctxt)
        except Exception:
            pass
        self.mismatches.append((self.pid + '.hang', {
            'what': f'a call into the code under test did not return within {e.info.get("seconds", "?")} s (the specification gives it a result)',
            'where': where, 'vector': vec, 'context': ctxt[:2000] if vec is None else None}))

    ABORT_ASPECT = {'obj': 'C06.abort', 'parse': 'C03.abort', 'parse_bytes': 'C03.abort', 'nest': 'C03.abort', 'nestb': 'C03.abort', 'print': 'C13.abort',
                    'wide': 'C13.abort', 'deepprint': 'C13.abort', 'canon': 'C09.abort', 'uneq': 'C15.abort', 'ser': 'C16.abort', 'de': 'C16.abort', 'sj': 'C18.abort',
                    'conv': 'C11.abort', 'fragiter': 'C11.abort', 'kind_set': 'C20.abort', 'kind_ops': 'C20.abort', 'kind_iter': 'C20.abort', 'access': 'C20.abort', 'macro': 'C19.abort'}

    def _isolated_replay(self, files, out, extra_args, chunk=20000):
        """The harness died (a panic inside a destructor aborts the process and cannot be caught).  Replay the
        vectors in child processes, bisecting every chunk that dies down to the single vector responsible:
        an abort of the code under test is data (a mismatch `<Cxx>.abort` carrying that vector)."""
        d = self.workdir('isolate')
        merged = {'counters': {}, 'mismatch_counts': {}, 'mismatches_total': 0, 'distinct': 0, 'samples': [], 'wall_s': 0.0}
        mm = open(out, 'w')
        budget = [400]          # at most this many child runs
        found = [0]

        def run(lines, depth=0):
            if not lines:
                return
            budget[0] -= 1
            if budget[0] < 0:
                raise ToolError('isolating a crashing vector needs too many runs')
            p = os.path.join(d, f'chunk_{depth}_{budget[0]}.ndjson')
            open(p, 'w').write('\n'.join(lines) + '\n')
            o = p + '.out'
            try:
                s = vp.jsv(['replay', p, '--out', o, '--threads', 2] + list(extra_args))
            except vp.HarnessHang as e:
                try:
                    s = vp.jsv(['replay', p, '--out', o, '--threads', 2] + list(extra_args))     # must hang again to count
                except vp.HarnessHang as e2:
                    self._hang(e2, 'replay (isolating an aborting vector)')
                    return
                except vp.HarnessCrash:
                    self._hang(e, 'replay (isolating an aborting vector)')
                    return
            except vp.HarnessCrash:
                if found[0] >= 3 and len(lines) > 1:
                    # enough culprits isolated: do not bisect further chunks, just count them
                    rec = vp.unquote_tlc(lines[0]) if lines[0].startswith('"') else json.loads(lines[0])
                    a = self.ABORT_ASPECT.get(rec.get('k'), 'C00.abort')
                    merged['mismatch_counts'][a] = merged['mismatch_counts'].get(a, 0) + 1
                    merged['counters']['chunks_aborted_not_bisected'] = merged['counters'].get('chunks_aborted_not_bisected', 0) + 1
                    return
                if len(lines) == 1:
                    # the vector that brings the process down does so every time: once more, in a fresh process
                    try:
                        s2 = vp.jsv(['replay', p, '--out', o, '--threads', 2] + list(extra_args))
                        log('[replay] a vector that took the process down once replays cleanly: the machine, not the code under test')
                        for k, v in s2.get('counters', {}).items():
                            merged['counters'][k] = merged['counters'].get(k, 0) + v
                        if os.path.exists(o):
                            mm.write(open(o).read())
                        return
                    except vp.HarnessHang as e:
                        self._hang(e, 'replay (isolating an aborting vector)')
                        return
                    except vp.HarnessCrash:
                        pass
                    found[0] += 1
                    rec = vp.unquote_tlc(lines[0]) if lines[0].startswith('"') else json.loads(lines[0])
                    a = self.ABORT_ASPECT.get(rec.get('k'), 'C00.abort')
                    mm.write(json.dumps({'aspect': a, 'detail': {'what': 'the process aborted while replaying this vector (a panic that cannot unwind, e.g. inside a destructor)', 'vector': rec}}) + '\n')
                    merged['mismatch_counts'][a] = merged['mismatch_counts'].get(a, 0) + 1
                    return
                h = len(lines) // 2
                run(lines[:h], depth + 1)
                run(lines[h:], depth + 1)
                return
            for k, v in s.get('counters', {}).items():
                merged['counters'][k] = merged['counters'].get(k, 0) + v
            for k, v in s.get('mismatch_counts', {}).items():
                merged['mismatch_counts'][k] = merged['mismatch_counts'].get(k, 0) + v
            merged['distinct'] += s.get('distinct', 0)
            merged['samples'] = (merged['samples'] + s.get('samples', []))[:6]
            merged['wall_s'] += s.get('wall_s', 0)
            if os.path.exists(o):
                mm.write(open(o).read())

        buf = []
        for f in files:
            with open(f, errors='replace') as fh:
                for line in fh:
                    if line.startswith('"{') or line.startswith('{'):
                        buf.append(line.rstrip('\n'))
                        if len(buf) >= chunk:
                            run(buf)
                            buf = []
        run(buf)
        mm.close()
        merged['mismatches_total'] = sum(merged['mismatch_counts'].values())
        return merged

    def _collect(self, path, aspects):
        if not os.path.exists(path):
            return
        with open(path) as f:
            for line in f:
                rec = json.loads(line)
                if any(rec['aspect'].startswith(a) for a in aspects):
                    self.mismatches.append((rec['aspect'], rec['detail']))
                elif rec['aspect'].startswith('X'):
                    self.ext.append((rec['aspect'], rec['detail']))

    def record(self, sub, out_name, args=(), seed_offset=0, debug=False):
        """Run a harness recorder (impl -> spec direction); returns (trace path, summary)."""
        path = os.path.join(self.workdir(), out_name)
        try:
            s = self._confirmed(lambda: vp.jsv([sub, '--out', path] + [str(a) for a in args], seed_offset=seed_offset, debug=debug), f'recorder {sub}')
        except vp.HarnessHang as e:
            self._hang(e, f'recorder {sub} {" ".join(str(a) for a in args)} (seed {vp.seed() + seed_offset})')
            raise RecorderAborted()
        except vp.HarnessCrash as e:
            # the code under test aborted the process while being driven by the recorder: that is data
            self.mismatches.append((self.pid + '.abort', {'what': 'the process aborted (panic that cannot unwind / stack overflow) while the recorder drove the real code',
                                                         'recorder': sub, 'args': [str(a) for a in args], 'seed': vp.seed() + seed_offset, 'stderr': str(e)[-300:]}))
            raise RecorderAborted()
        return path, s

    def validate(self, label, module, trace, aspect, what, invariants=('Result',), spec='TrSpec', timeout=1800,
                 heap='8g', classify=None):
        """Validate a recorded trace against a trace specification with TLC.  The trace
        spec prints one `trace_result` record: events consumed and the indexes (1-based
        lines) of the events it could not explain."""
        inst = f'TRI_{label}'
        mod = f'---- MODULE {inst} ----\nEXTENDS {module}\n====\n'
        cfg = f'SPECIFICATION {spec}\n' + ''.join(f'INVARIANT {i}\n' for i in invariants) + 'CHECK_DEADLOCK FALSE\n'
        r = vp.tlc(f'{self.pid}_{label}', mod, cfg, workers=1, cache=False, env={'TRACE': trace}, timeout=timeout,
                   heap=heap, props=('tlc2.tool.queue.IStateQueue=StateDeque',))
        if not r['ok']:
            raise ToolError(f'trace specification {module} failed on {trace}: {r["violation"]}; see {r["out"]}')
        res = None
        for line in vp.tlc_lines(r['out'], '"{'):
            rec = vp.unquote_tlc(line)
            if rec.get('k') == 'trace_result':
                res = rec
        if res is None:
            raise ToolError(f'trace specification {module} did not reach the end of {trace}; see {r["out"]}')
        lines = [x for x in open(trace).read().split('\n') if x]
        if res['events'] != len(lines):
            raise ToolError(f'trace length mismatch: TLC read {res["events"]} events, file has {len(lines)}')
        bad = res.get('bad', [])
        if classify is not None:
            # the trace serves several properties: keep the rejected events that belong to this one
            kept = {}
            for l in bad:
                a = classify(json.loads(lines[l - 1]))
                if a is not None:
                    kept[l] = a
            bad = sorted(kept)
        summ = {'label': label, 'events': res['events'], 'validated': res['events'] - len(bad), 'rejected': len(bad),
                'wall_s': r['wall_s'], 'mismatch_counts': ({aspect: len(bad)} if bad else {}),
                'distinct': res.get('distinct', res['events'])}
        self.traces.append(summ)
        for l in bad[:50]:
            # replay = the trace from the last reset up to and including the rejected event
            start = l - 1
            while start > 0 and '"reset"' not in lines[start][:40]:
                start -= 1
            prefix_path = os.path.join(vp.ROOT, 'replays', f'{self.pid}-{label}-event{l}.trace.ndjson')
            os.makedirs(os.path.dirname(prefix_path), exist_ok=True)
            with open(prefix_path, 'w') as f:
                f.write('\n'.join(lines[start:l]) + '\n')
            ev = json.loads(lines[l - 1])
            self.mismatches.append((aspect if classify is None else kept[l], {'what': what, 'event_index': l, 'event': ev, 'trace_module': module,
                                             'trace_prefix': prefix_path}))
        if not self.samples or len(self.samples) < 6:
            self.samples.append({'recorded_event': json.loads(lines[min(len(lines) - 1, 1)])})
        return summ

    def counts_for(self, summary, aspects):
        return sum(n for a, n in summary.get('mismatch_counts', {}).items() if any(a.startswith(x) for x in aspects))


# ----------------------------------------------------------------------------- parser family

def parser_trees(ctx, names, dump=True):
    files = []
    for n in names:
        consts, plain = models.parser_tree_instance(n, ctx.tier, dump)
        r = ctx.mc(f'ptree_{n}_{ctx.tier}', 'MC_ParserTree', consts, plain, models.TREE_INVS)
        files.append(r['out'])
    return files


REASON_ASPECT = {'verdict': ('C01.trace', 'C12.trace'), 'value': ('C02.trace', 'C12.trace'), 'codemap': ('C05.trace', 'C12.trace'),
                 'error': ('C07.trace', 'C07.trace'), 'pulls': ('C03.trace', 'C03.trace'), 'events': ('C05.trace', 'C05.trace'),
                 'panic': ('C03.trace', 'C03.trace')}


def parser_trace(ctx, aspects):
    """impl -> spec: record real parses of generated / damaged / corpus documents (coarse `doc`
    events under 1 or 4 option records, plus a number of parses at the grain of pulls and
    fragment hooks) and validate them with TraceParser."""
    n, fine = (260, 40) if ctx.quick else (6000, 600)
    trace, s = ctx.record('record-parse', 'parse.ndjson', ['--n', n, '--fine', fine] + ([] if ctx.quick else ['--exhaustive-edits', '1']))
    mod = '---- MODULE TRI_parse ----\nEXTENDS TraceParser\n====\n'
    cfg = 'SPECIFICATION TrSpec\nINVARIANT Result\nCHECK_DEADLOCK FALSE\n'
    r = vp.tlc(f'{ctx.pid}_parse', mod, cfg, workers=1, cache=False, env={'TRACE': trace}, timeout=3000,
               props=('tlc2.tool.queue.IStateQueue=StateDeque',))
    if not r['ok']:
        raise ToolError(f'TraceParser failed: {r["violation"]}; see {r["out"]}')
    res = None
    for line in vp.tlc_lines(r['out'], '"{'):
        rec = vp.unquote_tlc(line)
        if rec.get('k') == 'trace_result':
            res = rec
    if res is None:
        raise ToolError(f'TraceParser did not finish; see {r["out"]}')
    lines = [x for x in open(trace).read().split('\n') if x]
    mine = []
    counts = {}
    for l, why in res['bad']:
        ev = json.loads(lines[l - 1])
        # which option record was in force?
        o = ev.get('o')
        if o is None:
            j = l - 1
            while j >= 0 and '"ev":"start"' not in lines[j]:
                j -= 1
            o = json.loads(lines[j])['o'] if j >= 0 else [False, False]
        aspect = REASON_ASPECT[why][0 if o == [False, False] else 1]
        if why == 'codemap' and o != [False, False] and any(a.startswith('C05') for a in aspects):
            aspect = 'C05.trace'        # C05 speaks about every successful parse, whatever the options
        counts[aspect] = counts.get(aspect, 0) + 1
        if any(aspect.startswith(a) for a in aspects):
            start = l - 1
            if ev['ev'] != 'doc':
                while start > 0 and '"ev":"start"' not in lines[start]:
                    start -= 1
            prefix = os.path.join(vp.ROOT, 'replays', f'{ctx.pid}-parse-event{l}.trace.ndjson')
            os.makedirs(os.path.dirname(prefix), exist_ok=True)
            open(prefix, 'w').write('\n'.join(lines[start:l]) + '\n')
            text = ''.join(chr(c) for c in ev.get('w', [])) if ev.get('w') else (repr(bytes(ev['b'])) if ev.get('b') is not None else None)
            mine.append((aspect, {'what': f'recorded parse is not a behaviour of JsonParser ({why})', 'reason': why, 'event_index': l,
                                  'input': {'text': text, 'o': o}, 'event': ev if len(lines[l - 1]) < 4000 else {'ev': ev['ev']},
                                  'trace_module': 'TraceParser', 'trace_prefix': prefix}))
    # harness-side relations recorded with the trace
    if s.get('entrypoint_disagreements') and any('C01.'.startswith(a) or a.startswith('C01') for a in aspects):
        for d in s['entrypoint_disagreements'][:20]:
            mine.append(('C01.entrypoints', {'what': 'entry points disagree on a recorded input', 'input': d}))
    if s.get('lookup_failures') and any(a.startswith('C02') for a in aspects):
        mine.append(('C02.lookup', {'what': f'{s["lookup_failures"]} recorded documents: key lookup differs from a scan'}))
    nbad = len({l for l, _ in res['bad']})
    summ = {'label': 'parse', 'events': res['events'], 'validated': s.get('parses', 0) - len(mine), 'rejected': len(mine),
            'wall_s': r['wall_s'], 'distinct': s.get('parses', 0), 'mismatch_counts': counts, 'all_rejected_events': nbad}
    ctx.traces.append(summ)
    ctx.mismatches.extend(mine[:60])
    ctx.samples.extend(s.get('samples', [])[:1])


def sweeps(ctx, only, aspect, what, classify=None):
    """exhaustive run-compressed sweeps (Sweeps.tla / TraceSweep.tla)"""
    files = []
    for name in ['all']:
        trace, s = ctx.record('sweep', f'sweep_{name}.ndjson', ['--tier', ctx.tier, '--only', ','.join(only)])
        # the runs of one sweep must tile its domain: consecutive, no gaps except the surrogate range
        prev = None
        for line in open(trace):
            r = json.loads(line)
            key = json.dumps(r['sw'])
            if prev and prev[0] == key and r['lo'] != prev[1] + 1 and not (prev[1] == 0xD7FF and r['lo'] == 0xE000):
                raise ToolError(f'sweep {key}: runs are not contiguous at {r["lo"]}')
            prev = (key, r['hi'])
        v = ctx.validate(f'sweep_{name}', 'TraceSweep', trace, aspect, what, timeout=3000, classify=classify)
        v['events'] = s.get('elements', v['events'])
        v['validated'] = s.get('elements', 0) if not v['rejected'] else v['validated']
        v['distinct'] = s.get('elements', 0)
        ctx.samples.extend(s.get('samples', [])[:1])
    return files


def byte_trees(ctx, names=('utf8', 'utf8x4', 'utf8x4b', 'mixed', 'mixedlenient')):
    files = []
    for n in names:
        consts, plain = models.byte_tree_instance(n, ctx.tier)
        r = ctx.mc(f'btree_{n}_{ctx.tier}', 'MC_Bytes', consts, plain, ['Dump', 'DecoderIsTable37', 'BytesAcceptIffGrammar', 'BytesValueIsDenotation'], spec='BSpec')
        files.append(r['out'])
    return files


def parser_graph(ctx):
    """the control-state graph of the automaton: one replay vector (two, with the completed text) per transition"""
    chars = ' \n[]{},:"\\/bfnrtu0189-+.eEaAdDCFxG\x1f\x7f\u00e9\u20ac\U0001F600lst'
    alpha = '{' + ', '.join(str(ord(c)) for c in sorted(set(chars))) + '}'
    outs = []
    for name, opts, depth in [('strict', models.STRICT, 2 if ctx.quick else 3), ('lenient', 'AllOpts \\ {Strict}', 1 if ctx.quick else 2)]:
        r = ctx.mc(f'pgraph_{name}_{ctx.tier}', 'MC_ParserGraph', {'Alphabet': alpha, 'OptSet': opts}, {'MaxDepth': depth},
                   ['Viable', 'OneCharPerStep', 'StackIsNesting', 'ErrorAtLastChar'], spec='GSpec', extra=['VIEW View'], workers=8)
        outs.append(r['out'])
    return outs


STRICT_TREES = ['struct', 'lit', 'num', 'numtop', 'numobj', 'str', 'hex', 'tokens', 'nest', 'ws', 'strpad', 'keypad', 'numpad']
SURR_TREES = ['surr', 'surrkey', 'surropen', 'surrpad', 'surrseq', 'surrkeys']


def c01(ctx):
    # the surrogate trees run under all four option records: their strict runs belong to C01 (an unpaired
    # surrogate escape is rejected in strict mode), the harness attributes lenient runs to C12
    files = parser_trees(ctx, STRICT_TREES + SURR_TREES) + byte_trees(ctx) + parser_graph(ctx)
    # long inputs (hundreds of kilobytes) of multi-byte characters straddling the 64 KiB marks, through the slice entry point
    files.append(nest_families(ctx, 'StraddleFamilies')['out'])
    files.append(nest_bytes(ctx)['out'])
    ctx.replay(files, ['C01.'])
    parser_trace(ctx, ['C01.'])
    sweeps(ctx, ['raw_str', 'raw_key', 'esc_ascii', 'esc_u', 'esc_pair', 'esc_pair2', 'esc_hexchar', 'ctx', 'follows'], 'C01.sweep',
           'acceptance of a raw character / escape / escape pair differs from RFC 8259 (run-compressed exhaustive sweep)')


def c02(ctx):
    files = parser_trees(ctx, STRICT_TREES + SURR_TREES) + parser_graph(ctx)
    ctx.replay(files, ['C02.'])
    parser_trace(ctx, ['C02.'])
    sweeps(ctx, ['raw_str', 'raw_key', 'esc_ascii', 'esc_u', 'esc_u_key', 'esc_pair', 'esc_pair2', 'combine', 'esc_hexchar'], 'C02.sweep',
           'decoding of a character / escape / surrogate pair differs from the specification (run-compressed exhaustive sweep)')
    ctx.notes.append('sweeps: the real parser is run on every element (all scalars raw in strings and keys, all backslash+ASCII pairs, all 65536 '
                     '\\uXXXX in both hex cases, fixed-high x every second escape, every first escape x fixed-low, all 1048576 surrogate pairs); '
                     'quick tier evaluates the specification at the end points and 33 interior points of every observed run, thorough on every element')


def c05(ctx):
    files = parser_trees(ctx, ['struct', 'tokens', 'nest', 'str', 'numobj', 'strpad', 'keypad', 'numpad'] + SURR_TREES) + parser_graph(ctx)
    ctx.replay(files, ['C05.'])
    parser_trace(ctx, ['C05.'])
    # byte positions after every scalar, through the string and the byte-slice entry points: runs whose outcome is a code map
    sweeps(ctx, ['ctx'], 'C05.sweep',
           'number of fragments / span of the last fragment of a document holding this scalar differs from the specification (run-compressed exhaustive sweep)',
           classify=lambda ev: 'C05.sweep' if ev.get('tag') == 'ok' else None)


def c07(ctx):
    files = parser_trees(ctx, STRICT_TREES + SURR_TREES) + byte_trees(ctx) + parser_graph(ctx) + [nest_bytes(ctx)['out'], messages(ctx)]
    ctx.replay(files, ['C07.'])
    parser_trace(ctx, ['C07.'])
    # every scalar in 15 syntactic contexts (after a number, inside a literal, after a key ...): the error offset and character
    sweeps(ctx, ['ctx'], 'C07.sweep',
           'outcome (error offset / character, or the span of the last fragment) of a scalar in a syntactic context differs from the specification '
           '(run-compressed exhaustive sweep)')


def c12(ctx):
    files = parser_trees(ctx, SURR_TREES + ['struct', 'str', 'hex']) + parser_graph(ctx) + byte_trees(ctx, ('mixedlenient', 'mixed'))
    ctx.replay(files, ['C12.'])
    parser_trace(ctx, ['C12.'])
    sweeps(ctx, ['esc_u', 'esc_pair', 'raw_str', 'esc_ascii'], 'C12.sweep',
           'outcome of an escape / escape pair under the lenient options differs from the specification (run-compressed exhaustive sweep)')


def messages(ctx):
    """Messages.tla: every error value of a small domain with its text, accessors and source (extension aspect X02.message)"""
    return ctx.mc('messages', 'MC_Messages', {}, {}, ['Dump', 'Sane'], spec='MSpec')['out']


def nest_bytes(ctx):
    """long byte inputs with one ill-formed sequence after hundreds of kilobytes (slice entry point)"""
    depths = '{1000, 70000, 200000}' if ctx.quick else '{1000, 65530, 70000, 200000, 1000000}'
    return ctx.mc(f'nestbytes_{ctx.tier}', 'MC_NestBytes', {'Depths': depths}, {'NMax': 8}, ['Affine', 'Dump'], spec='NSpec', workers=4)


def nest_families(ctx, families='AllAndLength'):
    depths = '{1000, 100000}' if ctx.quick else '{1000, 100000, 1000000, 2000000}'
    consts = {'Families': families, 'Depths': depths}
    return ctx.mc(f'nest_{families}_{ctx.tier}', 'MC_Nest', consts, {'NMax': 9}, ['Affine', 'Dump'], spec='NSpec', workers=4)


def c03(ctx):
    files = parser_trees(ctx, ['struct', 'num', 'str', 'hex', 'nest', 'surr', 'surropen']) + parser_graph(ctx)
    r = nest_families(ctx)
    # the nesting / length families are run in an optimised AND in an unoptimised build of the crate: the stack bound must
    # not depend on the optimiser turning recursion into loops
    os.environ['JSV_NEST_CHILD_DEBUG'] = vp.build_harness_debug()
    ctx.replay(files + [r['out']], ['C03.'])
    parser_trace(ctx, ['C03.'])
    # every scalar raw in a string / key, after a backslash, in each hex-digit position of an escape, every \uXXXX: a run of
    # elements on which the parser panics is a violation of totality (other deviations on these sweeps belong to C01 / C02)
    sweeps(ctx, ['raw_str', 'raw_key', 'esc_ascii', 'esc_u', 'esc_u_key', 'esc_hexchar', 'esc_pair'], 'C03.sweep',
           'the parser panics on a character / escape of this run (run-compressed exhaustive sweep)',
           classify=lambda ev: 'C03.sweep' if ev.get('tag') == 'panic' else None)
    ctx.extra['stack_bytes'] = 256 * 1024
    ctx.notes.append('nesting families: outcomes affine in the depth, validated by TLC for depth 3..9 and extrapolated; the real parser '
                     'runs in a child process inside a thread with a 256 KiB stack (string and slice entry points, strict and flexible)')


OBJ_MODELS = {
    'quick': dict(keys='{<<97>>, <<98>>}', vals='{0, 1}', maxlen=4,
                  bulk='{<<>>, <<Entry(<<97>>, 1), Entry(<<98>>, 0), Entry(<<97>>, 0)>>, <<Entry(<<98>>, 1), Entry(<<98>>, 1)>>}'),
    'thorough': dict(keys='{<<65535>>, <<65536>>, <<99, 100>>}', vals='{0, 1}', maxlen=5,
                     bulk='{<<>>, <<Entry(<<65535>>, 1), Entry(<<65536>>, 0), Entry(<<65535>>, 0)>>, <<Entry(<<65536>>, 1), Entry(<<65536>>, 1)>>, '
                          '<<Entry(<<99, 100>>, 0), Entry(<<65535>>, 1), Entry(<<99, 100>>, 0), Entry(<<99, 100>>, 1)>>}'),
}


def object_graph(ctx):
    m = OBJ_MODELS[ctx.tier]
    consts = {'Keys': m['keys'], 'Absent': '<<122>>', 'Vals': m['vals'], 'Bulk': m['bulk']}
    return ctx.mc(f'object_{ctx.tier}', 'MC_Object', consts, {'MaxLen': m['maxlen']},
                  ['Consistent', 'Scans', 'BucketsSorted'], spec='OSpec', extra=['VIEW View'], workers=8)


def object_walks(ctx):
    """random walks of the object model far beyond the BFS bound (4 keys, up to 10 entries, depth 40 / 100; every enabled operation of every visited state is printed)"""
    consts = {'Keys': '{<<97>>, <<65535>>, <<65536>>, <<>>}', 'Absent': '<<122>>', 'Vals': '{0, 1, 2}',
              'Bulk': '{<<>>, <<Entry(<<97>>, 1), Entry(<<98>>, 0), Entry(<<97>>, 0)>>}'}
    inst = 'MCI_object_walks'
    mod = vp.instance_module(inst, 'MC_Object', consts)
    cfg = vp.instance_cfg(consts, {'MaxLen': 10}, ['Consistent', 'Scans', 'BucketsSorted'], spec='OSpec')
    num, depth = (6, 40) if ctx.quick else (40, 60)
    r = vp.tlc(f'object_walks_{ctx.tier}', mod, cfg, workers=4, simulate=f'num={num}', depth=depth, timeout=1500, heap='16g')
    r['instance'] = f'object_walks_{ctx.tier} (simulation: {num} behaviours of depth {depth})'
    r['invariants'] = ['Consistent', 'Scans', 'BucketsSorted']
    if r['violation']:
        raise ToolError(f'object walks violate {r["violation"]}')
    ctx.tlc_runs.append(r)
    return r


def c06(ctx):
    r = object_graph(ctx)
    w = object_walks(ctx)
    ctx.replay([r['out'], w['out'], messages(ctx)], ['C06.'])
    runs = 1 if ctx.quick else 8
    n = 600 if ctx.quick else 3000
    for i in range(runs):
        trace, s = ctx.record('record-obj', f'objtrace{i}.ndjson', ['--n', n, '--keys', 40, '--resets', 3], seed_offset=i * 7919)
        ctx.validate(f'objtrace{i}', 'TraceObject', trace, 'C06.trace',
                     'recorded object operation is not explained by the list model / index of JsonObject',
                     invariants=('Consistent', 'Result'), classify=lambda ev: None if ev.get('ev') == 'obs' else 'C06.trace')
    ctx.extra['rule'] = ('S->I: one case = one (reachable abstract object state, operation) transition of MC_Object replayed from an '
                         'access history, comparing entries, result, hooked index buckets and every key query; I->S: one case = one '
                         'operation of a long random history over 40 keys (several rehash cycles) validated by TraceObject')


def c14(ctx):
    r = object_graph(ctx)
    ctx.replay([r['out']], ['C14.'])
    # long random histories with interleaved observations: after hashing / comparing the object at arbitrary points of its
    # history it must still be ==, Equal and hash-identical to an object rebuilt from its entries
    for i in range(1 if ctx.quick else 10):
        trace, s = ctx.record('record-obj', f'objobs{i}.ndjson', ['--n', 500 if ctx.quick else 3000, '--keys', 12, '--resets', 5, '--observe', 2],
                              seed_offset=i * 104729)
        ctx.validate(f'objobs{i}', 'TraceObject', trace, 'C14.trace',
                     'an object observed (==, cmp, hash) in the middle of its history differs from an object rebuilt from the same entries',
                     invariants=('Consistent', 'Result'), classify=lambda ev: 'C14.trace' if ev.get('ev') == 'obs' else None)
    domains, size = (4, 36) if ctx.quick else (16, 110)
    trace, s = ctx.record('record-order', 'order.ndjson', ['--domains', domains, '--size', size])
    v = ctx.validate('order', 'TraceOrder', trace, 'C14.laws',
                     'recorded ==/cmp/partial_cmp/hash matrices violate the laws (structural equality, total order consistent with equality, hash respects equality)')
    v['events'] = s.get('pairs', v['events'])
    ctx.samples.extend(s.get('samples', [])[:1])
    ctx.extra['rule'] = ('S->I: every abstract object state of MC_Object reached through >= 2 histories must be ==, Equal and hash-identical '
                         '(and clones); I->S: all pairs and triples of generated domains (values with near-copies differing in one leaf / key / '
                         'position / length) checked by TraceOrder against the order laws')


def c15(ctx):
    flat = {'Keys': '{<<97>>, <<98>>}', 'Leaves': '{VNum(<<49>>), VNum(<<50>>)}'}
    nested = {'Keys': '{<<97>>, <<98>>}',
              'Leaves': '{VNum(<<49>>), VArr(<<VNum(<<49>>)>>), VObj(<<Entry(<<97>>, VNum(<<49>>)), Entry(<<98>>, VNum(<<50>>))>>), '
                        'VObj(<<Entry(<<98>>, VNum(<<50>>)), Entry(<<97>>, VNum(<<49>>))>>)}'}
    arrays = {'Keys': '{<<97>>}',
              'Leaves': '{VArr(<<>>), VArr(<<VNum(<<49>>)>>), VArr(<<VNum(<<49>>), VNum(<<50>>)>>), VArr(<<VNum(<<49>>), VNum(<<50>>), VNull>>), '
                        'VArr(<<VNum(<<50>>), VNum(<<49>>)>>), VArr(<<VObj(<<Entry(<<97>>, VNull), Entry(<<98>>, VBool(TRUE))>>)>>), '
                        'VArr(<<VObj(<<Entry(<<98>>, VBool(TRUE)), Entry(<<97>>, VNull)>>)>>)}'}
    r1 = ctx.mc(f'unordered_flat_{ctx.tier}', 'MC_Unordered', flat, {'MaxEntries': 3 if ctx.quick else 4}, ['Dump', 'Laws'], spec='USpec')
    r2 = ctx.mc(f'unordered_nested_{ctx.tier}', 'MC_Unordered', nested, {'MaxEntries': 2 if ctx.quick else 3}, ['Dump', 'Laws'], spec='USpec')
    r3 = ctx.mc(f'unordered_arrays_{ctx.tier}', 'MC_Unordered', arrays, {'MaxEntries': 2}, ['Dump', 'Laws'], spec='USpec')
    ctx.replay([r1['out'], r2['out'], r3['out']], ['C15.'])
    trace, s = ctx.record('record-unordered', 'uneq.ndjson', ['--n', 300 if ctx.quick else 4000])
    ctx.validate('uneq', 'TraceUnordered', trace, 'C15.trace',
                 'recorded unordered comparison differs from equality up to permutation of entries (MultisetEq)')
    ctx.extra['rule'] = ('S->I: all pairs of small objects (<= 3-4 entries over 2 keys x 2 leaves; <= 2-3 entries with nested leaves), plain and '
                         'nested under an array / object, compared with the declarative bijection-based UnorderedEq; I->S: generated values with '
                         'deep shuffles and single mutations (leaf, key, multiplicity, array swap) decided by MultisetEq in TLC')


def printer_model(ctx):
    consts = {'ValueSet': 'AllValues', 'OptionSet': 'QuickOptions' if ctx.quick else 'ThoroughOptions'}
    return ctx.mc(f'printer_{ctx.tier}', 'MC_Printer', consts, {},
                  ['Dump', 'ParseOfPrint', 'OnlyWhitespaceDiffers', 'CompactMinimal', 'NoLimitSingleLine'], spec='PSpec')


def printer_strings(ctx):
    """every string up to 3 characters over one representative per escaping class, and padded long strings"""
    return ctx.mc('printer_strings', 'MC_Printer', {'ValueSet': 'StringValues', 'OptionSet': 'StringOptions'}, {},
                  ['Dump', 'ParseOfPrint', 'OnlyWhitespaceDiffers', 'CompactMinimal', 'NoLimitSingleLine'], spec='PSpec')


def wide_families(ctx):
    sizes = '{1000, 40000}' if ctx.quick else '{1000, 40000, 300000}'
    return ctx.mc(f'wide_{ctx.tier}', 'MC_Wide', {'Sizes': sizes}, {'NMax': 6}, ['ClosedForm', 'Dump'], spec='WSpec', workers=4)


def printer_trace(ctx, aspect_layout, aspect_roundtrip, only=None):
    """record random values x random option records; TLC validates layout and round trip"""
    trace, s = ctx.record('record-print', 'print.ndjson', ['--n', 250 if ctx.quick else 3000])
    label = 'print'
    inst = 'TRI_print'
    mod = f'---- MODULE {inst} ----\nEXTENDS TracePrinter\n====\n'
    cfg = 'SPECIFICATION TrSpec\nINVARIANT Result\nCHECK_DEADLOCK FALSE\n'
    r = vp.tlc(f'{ctx.pid}_{label}', mod, cfg, workers=1, cache=False, env={'TRACE': trace}, timeout=3000)
    if not r['ok']:
        raise ToolError(f'TracePrinter failed: {r["violation"]}; see {r["out"]}')
    res = None
    for line in vp.tlc_lines(r['out'], '"{'):
        rec = vp.unquote_tlc(line)
        if rec.get('k') == 'trace_result':
            res = rec
    if res is None:
        raise ToolError(f'TracePrinter did not finish; see {r["out"]}')
    lines = [x for x in open(trace).read().split('\n') if x]
    wanted = []
    if aspect_layout:
        wanted += [(aspect_layout, l, 'recorded text differs from JsonPrinter!Render(value, options)') for l in res['bad']
                   if only is None or only(json.loads(lines[l - 1]))]
    if aspect_roundtrip:
        wanted += [(aspect_roundtrip, l, 'recorded text does not parse back to the printed value') for l in res['bad2']]
    summ = {'label': label, 'events': res['events'], 'validated': res['events'] - len({l for _, l, _ in wanted}),
            'rejected': len({l for _, l, _ in wanted}), 'wall_s': r['wall_s'], 'distinct': res['events'],
            'mismatch_counts': {a: sum(1 for x in wanted if x[0] == a) for a in {w[0] for w in wanted}}}
    ctx.traces.append(summ)
    for a, l, what in wanted[:50]:
        ev = json.loads(lines[l - 1])
        ctx.mismatches.append((a, {'what': what, 'event_index': l, 'vector': {'k': 'print', 'v': ev['v'], 'o': ev['o'], 'text': ev['text']},
                                   'observed_text': ''.join(chr(c) for c in ev['text']), 'reparsed': ev['back']}))
    ctx.samples.extend(s.get('samples', [])[:1])


def deep_prints(ctx):
    """deep expanded spines: indentation far beyond 65 535 columns"""
    big = ('{<<<<"spaces", 2>>, 300>>, <<<<"spaces", 255>>, 258>>, <<<<"tabs", 255>>, 258>>}' if ctx.quick else
           '{<<<<"spaces", 2>>, 300>>, <<<<"spaces", 255>>, 258>>, <<<<"tabs", 255>>, 258>>, <<<<"tabs", 128>>, 513>>, <<<<"spaces", 64>>, 1025>>, <<<<"spaces", 1>>, 5000>>}')
    return ctx.mc(f'deep_{ctx.tier}', 'MC_Deep', {'Big': big}, {'NMax': 5}, ['ClosedForm', 'Dump'], spec='DSpec', workers=4)


def c13(ctx):
    r = printer_model(ctx)
    ctx.replay([r['out'], printer_strings(ctx)['out'], wide_families(ctx)['out'], deep_prints(ctx)['out']], ['C13.'])
    printer_trace(ctx, 'C13.trace', None)
    sweeps(ctx, ['width_str', 'width_key'], 'C13.sweep',
           'the width the layout decision attributes to a one-character string / key differs from the number of characters printed '
           '(smallest Width limit keeping ["x"] / {"x":null} on one line; run-compressed exhaustive sweep over every scalar)')


def c04(ctx):
    r = printer_model(ctx)
    ctx.replay([r['out'], printer_strings(ctx)['out'], wide_families(ctx)['out'], deep_prints(ctx)['out']], ['C04.'])
    printer_trace(ctx, None, 'C04.trace')


def c08(ctx):
    r = printer_model(ctx)
    ctx.replay([r['out'], printer_strings(ctx)['out'], wide_families(ctx)['out']], ['C08.'])
    # recorded prints (values far larger than the model's, interleaved on one thread with prints under other option records):
    # the events printed with the compact preset belong to C08
    compact = {'indent': ['spaces', 0], 'alim': ['none'], 'olim': ['none']}
    printer_trace(ctx, 'C08.trace', None,
                  only=lambda ev: all(ev['o'].get(k) == v for k, v in compact.items()) and all(ev['o'][k] == 0 for k in ev['o'] if k not in compact))
    sweeps(ctx, ['print_str', 'print_key', 'print_long_str', 'print_long_key', 'print_pad'], 'C08.sweep',
           'compact printing of a one-character string / key differs from the RFC 8785 escaping (run-compressed exhaustive sweep)')


def nav_values(ctx):
    """every small value (by shape, not by text length) with its navigation expectations, replayed as `parse` vectors"""
    outs = []
    insts = [('deep', {'Keys': '{<<97>>}', 'Leaves': '{VNum(<<49>>)}'}, {'MaxDepth': 3, 'MaxWidth': 2}),
             ('wide', {'Keys': '{<<97>>, <<98>>}', 'Leaves': '{VNum(<<49>>)}'}, {'MaxDepth': 2, 'MaxWidth': 3})]
    if not ctx.quick:
        insts.append(('mixed', {'Keys': '{<<97>>, <<233>>}', 'Leaves': '{VNull, VStr(<<233, 128512>>), VArr(<<>>), VObj(<<>>)}'}, {'MaxDepth': 2, 'MaxWidth': 2}))
    for name, consts, plain in insts:
        r = ctx.mc(f'navvalues_{name}', 'MC_NavValues', consts, plain, ['Dump', 'ParseOfPrint'], spec='VSpec')
        outs.append(r['out'])
    return outs


def c11(ctx):
    files = parser_trees(ctx, ['struct', 'tokens', 'nest', 'numobj', 'keypad', 'surrkey']) + nav_values(ctx) + parser_graph(ctx)
    if ctx.quick:
        consts = {'Keys': '{<<97>>}', 'Leaves': '{VNull, VNum(<<49>>)}'}
    else:
        consts = {'Keys': '{<<97>>, <<98>>}', 'Leaves': '{VNull, VNum(<<49>>), VBool(TRUE)}'}
    r = ctx.mc(f'conv_{ctx.tier}', 'MC_Conv', consts, {'Depth': 2, 'Width': 2}, ['Dump', 'ErrInRange'], spec='CSpec')
    fi = ctx.mc(f'fragiter_{ctx.tier}', 'MC_FragIter', {'Keys': '{<<97>>}' if ctx.quick else '{<<97>>, <<98>>}', 'Leaves': '{VNull, VNum(<<49>>)}'},
                {'Depth': 2, 'Width': 2}, ['Dump', 'ExactlyOnce', 'Bounded', 'Preorder', 'Volumes'], spec='FSpec')
    ctx.replay(files + [r['out'], fi['out'], messages(ctx)], ['C11.'])
    trace, s = ctx.record('record-nav', 'nav.ndjson', ['--n', 200 if ctx.quick else 4000])
    reasons_trace(ctx, 'nav', 'TraceNav', trace, lambda ev, why: 'C11.trace_' + why,
                  lambda ev, why: f'recorded navigation of a generated document differs from CodeMapNav ({why})', rec_summary=s)
    ctx.extra['rule'] = ('S->I: every accepted document of the structure / token / nesting trees with its navigation expectations (pre-order '
                         'fragments, offsets of every array item, entry, key and value, lookups for every present, duplicated and absent key, '
                         'get_fragment for 0..n+2); every small document x 15 type shapes for the conversions')


def canon_model(ctx):
    return ctx.mc('canonical', 'MC_Canonical', {}, {}, ['Dump', 'PermInvariant', 'Idempotent', 'Sorted'], spec='KSpec')


def canon_trace(ctx, reasons_to_aspect):
    n = 150 if ctx.quick else 2500
    args = ['--n', n] + ([] if ctx.quick else ['--heavy', '1'])
    trace, s = ctx.record('record-canon', 'canon.ndjson', args)
    mod = '---- MODULE TRI_canon ----\nEXTENDS TraceCanon\n====\n'
    cfg = 'SPECIFICATION TrSpec\nINVARIANT Result\nCHECK_DEADLOCK FALSE\n'
    r = vp.tlc(f'{ctx.pid}_canon', mod, cfg, workers=1, cache=False, env={'TRACE': trace}, timeout=5000)
    if not r['ok']:
        raise ToolError(f'TraceCanon failed: {r["violation"]}; see {r["out"]}')
    res = None
    for line in vp.tlc_lines(r['out'], '"{'):
        rec = vp.unquote_tlc(line)
        if rec.get('k') == 'trace_result':
            res = rec
    if res is None:
        raise ToolError(f'TraceCanon did not finish; see {r["out"]}')
    lines = [x for x in open(trace).read().split('\n') if x]
    mine, counts = [], {}
    for l, why in res['bad']:
        ev = json.loads(lines[l - 1])
        if why == 'certificate':
            raise ToolError(f'harness-side certificate is wrong at event {l} of {trace} (claimed double is not the nearest, or a rewriting '
                            f'does not preserve meaning): {lines[l - 1][:400]}')
        key = why.split(':')[0]
        aspect = reasons_to_aspect.get(why, reasons_to_aspect.get(key))
        counts[why] = counts.get(why, 0) + 1
        if aspect is None:
            continue
        d = {'what': f'recorded canonicalization is not RFC 8785 ({why})', 'reason': why, 'event_index': l}
        if ev['ev'] == 'mutfail':
            d['value'] = ev['v']
            d['after_update'] = ev['after'] if len(lines[l - 1]) < 3000 else None
        elif ev['ev'] == 'canon':
            d['input'] = {'text': ''.join(chr(c) for c in ev['text'])[:300]}
            d['numbers'] = [{'spelling': ''.join(chr(c) for c in c_['sp']), 'rendering': ''.join(chr(c) for c in c_['r'])} for c_ in ev['nums']][:8]
            d['value'] = ev['v'] if len(lines[l - 1]) < 3000 else None
        else:
            d['input'] = {'text': ev.get('btext', '')[:300]}
            d['ta'] = ''.join(chr(c) for c in ev['ta'])[:300]
            d['tb'] = ''.join(chr(c) for c in ev['tb'])[:300]
        mine.append((aspect, d))
    summ = {'label': 'canon', 'events': res['events'], 'validated': res['events'] - len(mine), 'rejected': len(mine), 'wall_s': r['wall_s'],
            'distinct': res['events'], 'mismatch_counts': counts, 'numbers_certified': s.get('numbers', 0)}
    ctx.traces.append(summ)
    ctx.mismatches.extend(mine[:60])
    ctx.samples.extend(s.get('samples', [])[:1])


def c09(ctx):
    r = canon_model(ctx)
    ctx.replay([r['out']], ['C09.'])
    canon_trace(ctx, {'number': 'C09.number', 'structure': 'C09.order', 'text': 'C09.text'})
    # "strings are minimally escaped": the canonical text of a string (or of an object with one key) is its compact print
    sweeps(ctx, ['print_str', 'print_key'], 'C09.escaping',
           'the canonical (compact) text of a one-character string / key is not minimally escaped (run-compressed exhaustive sweep over every scalar)')
    ctx.extra['rule'] = ('S->I: every permutation (at every level) of 15 base I-JSON values with keys from the UTF-16 / code-point divergence region and '
                         'numbers from a TLC-certified table; I->S: generated I-JSON values; every distinct number carries a certificate checked by TLC '
                         'with exact integer arithmetic (nearest double, shortest and closest digits, Number::toString layout)')


def c10(ctx):
    r = canon_model(ctx)
    ctx.replay([r['out']], ['C10.'])
    # "each number keeps its double value": the rendering must denote the nearest double of the source spelling (certificate
    # reasons roundtrip / sign / zero); shortest-digits and layout deviations belong to C09 only
    canon_trace(ctx, {'panic': 'C10.panic', 'number:roundtrip': 'C10.number', 'number:sign': 'C10.number', 'number:zero': 'C10.number', 'idempotence': 'C10.idempotent', 'invariance': 'C10.invariance', 'index': 'C10.index', 'queries': 'C10.queries',
                      'structure': 'C10.structure'})


def reasons_trace(ctx, label, module, trace, mapping, describe, timeout=5000, rec_summary=None):
    """Validate `trace` with a trace spec whose result is bad = <<line, reason>>; map reasons to aspects."""
    mod = f'---- MODULE TRI_{label} ----\nEXTENDS {module}\n====\n'
    cfg = 'SPECIFICATION TrSpec\nINVARIANT Result\nCHECK_DEADLOCK FALSE\n'
    r = vp.tlc(f'{ctx.pid}_{label}', mod, cfg, workers=1, cache=False, env={'TRACE': trace}, timeout=timeout)
    if not r['ok']:
        raise ToolError(f'{module} failed: {r["violation"]}; see {r["out"]}')
    res = None
    for line in vp.tlc_lines(r['out'], '"{'):
        rec = vp.unquote_tlc(line)
        if rec.get('k') == 'trace_result':
            res = rec
    if res is None:
        raise ToolError(f'{module} did not finish; see {r["out"]}')
    lines = [x for x in open(trace).read().split('\n') if x]
    mine, counts = [], {}
    for l, why in res['bad']:
        ev = json.loads(lines[l - 1])
        if why == 'certificate':
            raise ToolError(f'harness-side certificate is wrong at event {l} of {trace}: {lines[l - 1][:400]}')
        counts[f'{ev["ev"]}:{why}'] = counts.get(f'{ev["ev"]}:{why}', 0) + 1
        aspect = mapping(ev, why)
        if aspect is None:
            continue
        d = {'what': describe(ev, why), 'reason': why, 'event_index': l, 'event_kind': ev['ev']}
        d['event'] = ev if len(lines[l - 1]) < 6000 else {k: ev[k] for k in ev if k in ('ev', 'type', 'debug', 'value', 'out')}
        mine.append((aspect, d))
    summ = {'label': label, 'events': res['events'], 'validated': res['events'] - len(mine), 'rejected': len(mine), 'wall_s': r['wall_s'],
            'distinct': res['events'], 'mismatch_counts': counts}
    ctx.traces.append(summ)
    ctx.mismatches.extend(mine[:80])
    if rec_summary:
        ctx.samples.extend(rec_summary.get('samples', [])[:2])
    return res


def serde_model(ctx):
    return ctx.mc('serde_terms', 'MC_Serde', {}, {}, ['Dump', 'BuilderCollapses'], spec='SSpec')


def de_model(ctx):
    return ctx.mc('serde_de', 'MC_SerdeDe', {}, {}, ['Dump', 'LengthErrorsOnlyWhenShort'], spec='DSpec')


def c16(ctx):
    r = serde_model(ctx)
    ctx.replay([r['out'], de_model(ctx)['out']], ['C16.'])
    for i in range(1 if ctx.quick else 4):
        trace, s = ctx.record('record-serde', f'serde16_{i}.ndjson', ['--n', 140 if ctx.quick else 3000, '--events', 'typed'], seed_offset=i * 7919)
        reasons_trace(ctx, 'serde' if i == 0 else f'serde_{i}', 'TraceSerde', trace, lambda ev, why: 'C16.' + why,
                      lambda ev, why: f'typed datum ({ev.get("type")}): {why}', rec_summary=s)
    ctx.extra['rule'] = ('S->I: every small data-model term (5080) through json_syntax::Serializer (= specified encoding) and serde_json (same shape); '
                         'I->S: instances of a derive family (structs, 4 variant kinds, options, tuples, sequences, maps keyed by strings / integers / '
                         'chars / unit variants / newtype keys, 8-64 bit integers at their bounds, random-bit f32/f64, arbitrary Unicode): recorded term, '
                         'Value, serde_json value, float certificates and the three round trips, validated by TraceSerde')


def c17(ctx):
    r = serde_model(ctx)
    ctx.replay([r['out'], de_model(ctx)['out']], ['C17.'])
    for i in range(1 if ctx.quick else 3):
        trace, s = ctx.record('record-serde', f'serde17_{i}.ndjson', ['--n', 150 if ctx.quick else 3000, '--events', 'value_ser,value_de,text_de'], seed_offset=i * 7919)
        reasons_trace(ctx, 'serde' if i == 0 else f'serde_{i}', 'TraceSerde', trace, lambda ev, why: 'C17.' + why,
                      lambda ev, why: f'Value through its own Serialize/Deserialize ({ev["ev"]}): {why}', rec_summary=s)


def c18(ctx):
    for i in range(1 if ctx.quick else 3):
        trace, s = ctx.record('record-serde', f'serde18_{i}.ndjson', ['--n', 200 if ctx.quick else 5000, '--events', 'sj_rt,js_rt'], seed_offset=i * 7919)
        reasons_trace(ctx, 'serde' if i == 0 else f'serde_{i}', 'TraceSerde', trace, lambda ev, why: 'C18.' + why,
                      lambda ev, why: f'conversion with serde_json::Value ({ev["ev"]}): {why}', rec_summary=s)
    # the same recorder in an UNOPTIMISED build of the crate ("neither direction panics": arithmetic overflow is only checked there)
    trace, s = ctx.record('record-serde', 'serde18_debug.ndjson', ['--n', 120 if ctx.quick else 2000, '--events', 'sj_rt,js_rt'], seed_offset=17, debug=True)
    reasons_trace(ctx, 'serde_debug', 'TraceSerde', trace, lambda ev, why: 'C18.' + why,
                  lambda ev, why: f'conversion with serde_json::Value, unoptimised build ({ev["ev"]}): {why}', rec_summary=s)
    r = ctx.mc('serde_json_model', 'MC_SerdeJson', {}, {}, ['Laws', 'Dump'], spec='JSpec')
    ctx.replay([r['out']], ['C18.'])


def c19(ctx):
    consts = {'Docs': 'QuickDocs' if ctx.quick else 'ThoroughDocs'}
    r = ctx.mc(f'macro_{ctx.tier}', 'MC_Macro', consts, {}, ['Expands', 'MacroIsParse', 'Dump'], spec='MSpec')
    ctx.replay([r['out']], ['C19.'])
    trace, s = ctx.record('record-macro', 'macro.ndjson', ['--n', 150 if ctx.quick else 4000])
    for ce in s.get('compile_errors', []):
        ctx.mismatches.append(('C19.compile', ce))
    if s.get('events', 0) > 0:
        reasons_trace(ctx, 'macro', 'TraceMacro', trace, lambda ev, why: 'C19.trace_' + why,
                      lambda ev, why: f'recorded json! invocation: {why}', rec_summary=s)
    elif not s.get('compile_errors'):
        raise ToolError('record-macro produced no event')
    ctx.extra['rule'] = ('one case = one json! invocation enumerated by TLC from the macro-muncher specification (trailing commas after scalars and '
                         'containers, literal / parenthesized / expression keys, duplicate keys, negative and float literals, expression values), emitted '
                         'as Rust source, compiled against the current tree and compared with Value::parse_str of the matching text')
    ctx.assumptions = DEFAULT_ASSUMPTIONS + ['rustc expands macro_rules! as documented; float literals are restricted to spellings that are their own shortest rendering']


def c20(ctx):
    r = ctx.mc('kindset', 'MC_KindSet', {}, {}, ['DumpIter', 'DumpSet', 'IterSound'], spec='KSpec', workers=4)
    leaves = ('{VNull, VBool(TRUE), VBool(FALSE), VNum(<<48>>), VNum(<<45, 49, 46, 53, 101, 51>>), VStr(<<>>), VStr(<<233, 128512>>)}')
    a = ctx.mc('access_flat', 'MC_Access', {'Keys': '{<<97>>, <<>>}', 'Leaves': leaves}, {'MaxDepth': 1, 'MaxWidth': 3}, ['Dump', 'ExactlyOneKind'],
               spec='ASpec')
    a2 = ctx.mc('access_nested', 'MC_Access', {'Keys': '{<<97>>}', 'Leaves': '{VNull, VNum(<<48>>)}'}, {'MaxDepth': 2, 'MaxWidth': 2 if ctx.quick else 3},
                ['Dump', 'ExactlyOneKind'], spec='ASpec')
    ctx.replay([r['out'], a['out'], a2['out']], ['C20.'], extra_args=['--value-kinds', '1'])
    # once more in an unoptimised build (arithmetic overflow is only checked there)
    ctx.replay([r['out']], ['C20.'], label='replay_unoptimised', extra_args=['--value-kinds', '1'], debug=True)
    ctx.exhaustive = True
    ctx.extra['rule'] = ('the complete finite domain: all 64 sets x 3 construction routes, all 64x64 operand pairs (incl. every '
                         'set/kind and kind/kind combination), every interleaving of next / next_back / nth / nth_back steps incl. one step '
                         'past exhaustion, the consuming adaptors on every reached iterator; Value::kind / is_kind on every value of depth 1 x width <= 3 '
                         '(7 leaves of all scalar kinds, 2 keys) and depth <= 2-3 x width 2, together with the whole accessor layer (JsonAccess)')


CHECKS = {
    'C01': c01, 'C02': c02, 'C03': c03, 'C05': c05, 'C07': c07, 'C12': c12,
    'C04': c04, 'C08': c08, 'C09': c09, 'C10': c10, 'C13': c13,
    'C06': c06, 'C11': c11, 'C14': c14, 'C15': c15, 'C16': c16, 'C17': c17, 'C18': c18, 'C19': c19,
    'C20': c20,
}


# ----------------------------------------------------------------------------- conclusion

def conclude(ctx):
    """Match mismatches against the known findings, write the replay file and
    the evidence, print the verdict lines, return the exit code."""
    known = vp.load_known()
    mine = [f for f in known.get('findings', []) if f.get('property') == ctx.pid]
    unlisted, listed = [], {}
    for aspect, detail in ctx.mismatches:
        hit = None
        for f in mine:
            if vp.finding_matches(f, aspect, detail):
                hit = f
                break
        if hit is None:
            unlisted.append((aspect, detail))
        else:
            listed.setdefault(hit['id'], [hit, 0])[1] += 1
    for fid, (f, n) in sorted(listed.items()):
        print(f'KNOWN-FINDING: property={ctx.pid} {fid}: {f["what"]} ({n} occurrence(s) in this run)')
    total_mismatch = 0
    for s in ctx.replays + ctx.traces:
        total_mismatch += ctx.counts_for(s, ctx.extra.get('aspects', [ctx.pid + '.']))
    states = sum(r['distinct'] for r in ctx.tlc_runs)
    transitions = sum(r['generated'] for r in ctx.tlc_runs)
    replayed = sum(sum(v for k, v in s.get('counters', {}).items() if k.endswith('_vectors')) for s in ctx.replays)
    validated = sum(s.get('validated', 0) for s in ctx.traces)
    evaluations = sum(sum(v for k, v in s.get('counters', {}).items() if k.endswith('_calls')) for s in ctx.replays) \
        + sum(s.get('events', 0) for s in ctx.traces)
    distinct = sum(s.get('distinct', 0) for s in ctx.replays) + sum(s.get('distinct', 0) for s in ctx.traces)
    coverage = {
        'states': states,
        'transitions': transitions,
        'traces_validated_against_impl': replayed + validated,
        'samples': (ctx.samples[:6] or [{'note': 'no sample recorded'}]),
        'evaluations': max(evaluations, replayed + validated),
        'distinct_nontrivial': distinct,
        'rule': ctx.extra.get('rule', 'one case = one spec-generated behaviour replayed into the code, or one recorded '
                                      'behaviour of the code validated by TLC; distinct = distinct (input, configuration) '
                                      'pairs by hash, counted by the harness'),
        'exhaustive': ctx.exhaustive,
        'tlc_instances': [{k: r.get(k) for k in ('instance', 'generated', 'distinct', 'depth', 'wall_s', 'cached', 'invariants')}
                          for r in ctx.tlc_runs],
        'replays': [{k: s.get(k) for k in ('label', 'counters', 'mismatch_counts', 'distinct', 'wall_s')} for s in ctx.replays],
        'trace_validations': [{k: s.get(k) for k in ('label', 'events', 'validated', 'rejected', 'actions', 'wall_s')} for s in ctx.traces],
        'known_findings_hit': {fid: n for fid, (f, n) in listed.items()},
        'notes': ctx.notes,
    }
    coverage.update({k: v for k, v in ctx.extra.items() if k not in ('aspects', 'rule')})
    if ctx.ext:
        # behaviour specified beyond the listed properties (typed token entry points, ...): reported, never a property violation
        coverage['extension_deviations'] = [{'aspect': a, 'detail': d} for a, d in ctx.ext[:20]]
        for a in sorted({a for a, _ in ctx.ext}):
            n = sum(1 for x, _ in ctx.ext if x == a)
            d = next(d for x, d in ctx.ext if x == a)
            print(f'EXTENSION-DEVIATION: [{a}] {n} deviation(s) from the specification beyond the listed properties; first: {json.dumps(d)[:300]}')
    rc = 0
    replay_path = None
    if unlisted:
        os.makedirs(os.path.join(vp.ROOT, 'replays'), exist_ok=True)
        replay_path = os.path.join(vp.ROOT, 'replays', f'{ctx.pid}-{ctx.tier}-{vp.seed()}' + ('-replayed' if getattr(ctx, 'replay_mode', False) else '') + '.ndjson')
        with open(replay_path, 'w') as f:
            for aspect, detail in unlisted[:200]:
                f.write(json.dumps({'aspect': aspect, 'detail': detail}) + '\n')
        rc = 1
    if not getattr(ctx, 'replay_mode', False):
        vp.write_evidence(ctx.pid, ctx.tier, coverage, ctx.assumptions or DEFAULT_ASSUMPTIONS, time.time() - ctx.t0,
                          len(unlisted))
    if rc:
        a, d = unlisted[0]
        what = d.get('what', '') if isinstance(d, dict) else ''
        print(f'first violation: [{a}] {what}: {json.dumps(d)[:600]}')
        print(f'VIOLATION property={ctx.pid} replay={replay_path}')
    else:
        print(f'OK property={ctx.pid} tier={ctx.tier}: {states} spec states, {replayed} spec behaviours replayed, '
              f'{validated} recorded behaviours validated, {time.time() - ctx.t0:.0f}s')
    return rc


DEFAULT_ASSUMPTIONS = [
    'TLC/SANY and the Json/IOUtils community modules are correct',
    'the harness projection (value -> tagged record, code points as integers) and its comparators are correct',
    'bounded instances: the alphabets contain a representative of every character class the specification distinguishes',
]


def run_replay(ctx, path):
    """Re-run the vectors stored in a replay file against the current tree; recorded traces (impl -> spec
    violations) are re-validated against their trace specification."""
    ctx.replay_mode = True      # a replay run does not rewrite the evidence file
    vectors = os.path.join(ctx.workdir(), 'replay_vectors.ndjson')
    n, traces = 0, []
    with open(path) as f, open(vectors, 'w') as g:
        for line in f:
            rec = json.loads(line)
            d = rec.get('detail', {})
            v = d.get('vector') or (d.get('input') or {}).get('vector')
            if v is not None:
                g.write(json.dumps(v) + '\n')
                n += 1
            elif d.get('trace_prefix') and d.get('trace_module') and os.path.exists(d['trace_prefix']):
                traces.append((rec['aspect'], d))
            elif d.get('event') is not None and d.get('event_kind'):
                # a single self-contained recorded event: validate it alone
                p = os.path.join(ctx.workdir(), f'replay_event_{len(traces)}.ndjson')
                open(p, 'w').write(json.dumps(d['event']) + '\n')
                module = {'typed': 'TraceSerde', 'value_ser': 'TraceSerde', 'value_de': 'TraceSerde', 'text_de': 'TraceSerde', 'sj_rt': 'TraceSerde',
                          'js_rt': 'TraceSerde', 'nav': 'TraceNav', 'conv': 'TraceNav', 'macro': 'TraceMacro', 'canon': 'TraceCanon',
                          'rewrite': 'TraceCanon'}.get(d['event_kind'])
                if module:
                    traces.append((rec['aspect'], dict(d, trace_prefix=p, trace_module=module)))
    if n == 0 and not traces:
        raise ToolError('replay file contains nothing replayable')
    if n:
        ctx.replay([vectors], [ctx.pid + '.'], label='replay_file')
    for i, (aspect, d) in enumerate(traces[:20]):
        mod = f'---- MODULE TRI_replay{i} ----\nEXTENDS {d["trace_module"]}\n====\n'
        cfg = 'SPECIFICATION TrSpec\nINVARIANT Result\nCHECK_DEADLOCK FALSE\n'
        r = vp.tlc(f'{ctx.pid}_replay{i}', mod, cfg, workers=1, cache=False, env={'TRACE': d['trace_prefix']}, timeout=900)
        res = None
        for line in vp.tlc_lines(r['out'], '"{'):
            rec = vp.unquote_tlc(line)
            if rec.get('k') == 'trace_result':
                res = rec
        rejected = bool(res and (res.get('bad') or res.get('bad2')))
        ctx.traces.append({'label': f'replay{i}', 'events': res['events'] if res else 0, 'validated': 0 if rejected else 1, 'rejected': int(rejected),
                           'wall_s': r['wall_s'], 'distinct': 1, 'mismatch_counts': {aspect: 1} if rejected else {}})
        if rejected:
            ctx.mismatches.append((aspect, dict(d, what=d.get('what', '') + ' (recorded behaviour re-validated: still rejected by the trace specification)')))
    return conclude(ctx)
