HOOKS = {
    'guard': 'json_syntax_verif',
    'enable': 'RUSTFLAGS --cfg json_syntax_verif, set in /verif/harness/.cargo/config.toml (the harness depends on /repo by path, so every check rebuilds the crate from the working tree with the hooks on)',
    'baseline_off_cmd': 'cd /repo && cargo test --workspace --no-fail-fast --offline',
    'source_commits': ['70615ea', '5a83f11'],
    'add_only': True,
}

ENGINES = [
    {'name': 'TLC', 'path': 'spec/', 'kind_free_text': 'explicit TLA+ specification (spec/*.tla), bounded instances under spec/mc, trace specifications under spec/trace; model checked with TLC 1.8',
     'serves_properties': ['C01', 'C02', 'C03', 'C04', 'C05', 'C06', 'C07', 'C08', 'C09', 'C10', 'C11', 'C12', 'C13', 'C14', 'C15', 'C16', 'C17', 'C18', 'C19', 'C20']},
    {'name': 'jsv', 'path': 'harness/', 'kind_free_text': 'Rust conformance harness: replays TLC-generated behaviours into the real crate (spec->impl) and records behaviours of the real crate for validation by TLC (impl->spec)',
     'serves_properties': ['C01', 'C02', 'C03', 'C04', 'C05', 'C06', 'C07', 'C08', 'C09', 'C10', 'C11', 'C12', 'C13', 'C14', 'C15', 'C16', 'C17', 'C18', 'C19', 'C20']},
]

NOTES = ('Every check: bin/check <id> --tier quick|thorough. The specification (spec/*.tla) is the oracle: TLC model-checks the '
         'bounded instance of the module the property lives in, prints every reachable behaviour as a replay vector which the harness '
         'runs through the real crate comparing the full projected state, and validates behaviours recorded from the real crate against '
         'the trace specification. Exit 1 only with a VIOLATION line and a replay file; tool errors exit 2. See DESIGN.md.')

_TB = 'Trusted: TLC/SANY, the Json community module, rustc, the harness projection (values as tagged records, strings as code-point arrays) and comparators. '

CLAIMS = {
    'C01': dict(engine='TLC+jsv', design_ref='DESIGN.md section 6 (C01), 4.3',
                technique='TLA+ push-down automaton of RFC 8259 model-checked by TLC; every reachable input replayed into all parse entry points; recorded parses validated against the trace spec',
                text='JsonParser.tla is a character-level automaton written from RFC 8259. TLC enumerates every string up to a length bound over per-sublanguage alphabets (structure, literals, numbers in three follow contexts, strings, escapes, tokens, nesting), each state being one input with its verdict; the harness requires that verdict from all 13 entry points. This is exhaustive within the bounds and a transition cover of each lexical automaton; beyond the bounds, recorded parses of generated/mutated documents are validated by TLC.',
                note=_TB + 'Bounded: strings up to the per-tree length; alphabets hold one representative per character class.'),
    'C02': dict(engine='TLC+jsv', design_ref='DESIGN.md section 6 (C02)',
                technique='TLC-enumerated documents with their denoted value replayed into the parser; exhaustive escape sweeps compared with the spec in run-compressed form',
                text='The replayed outcome includes the value (order, duplicates, decoded strings, verbatim number spellings) and every key lookup on every parsed object is compared with a scan of the specified entries.',
                note=_TB),
    'C03': dict(engine='TLC+jsv', design_ref='DESIGN.md section 6 (C03)',
                technique='spec gives per input the number of characters a single-pass parser may pull; replay through a counting iterator under catch_unwind; deep-nesting families run in a small fixed stack',
                text='OneCharPerStep is an invariant of the specification; each replayed input runs through a counting iterator (pulled characters <= the specification bound) with panics caught, under all option records; nesting families with TLC-validated closed-form outcomes are parsed at depth up to 2e6 in a thread with a fixed small stack.',
                note=_TB + 'The OS stack bound is decided by execution, not by the model.'),
    'C05': dict(engine='TLC+jsv', design_ref='DESIGN.md section 6 (C05)',
                technique='code map is part of the TLC-generated outcome (CodeMapOK invariant: pre-order fragments, volumes, nesting); replayed byte-for-byte; fragment hooks validated step by step by the trace spec',
                text='The specification reserves and closes fragments per C05; CodeMapOK (entries = pre-order fragments of the value, volumes, nesting) is checked in every accepting state; the real code map must equal the specified one for every enumerated document through string and slice entry points.',
                note=_TB),
    'C07': dict(engine='TLC+jsv', design_ref='DESIGN.md section 6 (C07)',
                technique='errors are part of the TLC-generated outcome: first non-viable character offset and character; surrogate errors by offending units and region inclusion',
                text='In the specification an unexpected-character error is raised exactly when the automaton has no transition, i.e. at the first character that leaves the viable prefixes; the replay requires the same offset and character from the real parser for every rejected input of the trees.',
                note=_TB),
    'C12': dict(engine='TLC+jsv', design_ref='DESIGN.md section 6 (C12)',
                technique='the four option records run on the same TLC-enumerated inputs; ConservativeExtension invariant; every sequence of <=4 string elements in value/key position replayed under each option record',
                text='TLC enumerates all sequences of up to 4 string elements from {high escape, low escape, ordinary escape, raw character} in value and key position and unterminated, under all four option records, with the expected value or error; ConservativeExtension (strict-valid => identical outcome under every option record) is an invariant.',
                note=_TB),
}

CLAIMS.update({
    'C06': dict(engine='TLC+jsv', design_ref='DESIGN.md section 6 (C06), 4.4',
                technique='TLA+ list model + transcribed index algorithm; TLC explores every reachable abstract object state x every operation (IdxConsistent, QueriesAreScans, Apply = documented list semantics); each transition replayed with hooked index comparison; long random histories validated by TraceObject',
                text='JsonObject.tla has two layers: the documented list semantics of every public operation and the index-maintenance algorithm at implementation grain; TLC checks that the second is the index of the first in every reachable state of the bounded graph and prints every (state, operation) transition, which the harness replays from an access history comparing entries, result, the real index buckets (cfg hook) and every key query; long random histories over 40 keys are validated event by event by TraceObject.',
                note=_TB + 'Hook: Object::verif_index_dump (read-only). Bounded graph: 2-3 keys, 2 values, <= 4-5 entries; traces: 600-24000 operations.'),
    'C14': dict(engine='TLC+jsv', design_ref='DESIGN.md section 6 (C14)',
                technique='history independence from the MC_Object graph (states reached by >= 2 histories); order/equality/hash laws checked by TLC (TraceOrder) on recorded all-pairs matrices',
                text='Every abstract state of the object graph reached through different histories yields real objects that must be ==, Equal and hash-identical (clones too); the real ==/cmp/partial_cmp/hash are evaluated on all pairs of generated domains with near-copies and TLC checks structural equality, totality, antisymmetry, transitivity on all triples and hash coherence. The concrete order is not specified.',
                note=_TB),
    'C20': dict(engine='TLC+jsv', design_ref='DESIGN.md section 6 (C20), 4.7',
                technique='exhaustive TLA+ model of the 64 sets, all operand pairs, all front/back interleavings; every state replayed into the crate',
                text='The domain is finite and enumerated completely by TLC (IterSound invariant); every set, operand pair, rendering and iterator interleaving is replayed into the real KindSet.',
                note=_TB),
})

CLAIMS.update({
    'C04': dict(engine='TLC+jsv', design_ref='DESIGN.md section 6 (C04), 4.5',
                technique='TLA+ printer specification composed with the parser specification (ParseOfPrint, OnlyWhitespaceDiffers checked by TLC over values x option records); every pair replayed; recorded random prints validated by TracePrinter',
                text='MC_Printer checks for every bounded value x option record that the specified text parses back (with the specified parser) to the value; the harness prints each pair with the real printer and re-parses with the real strict parser; random values x random option records are recorded and TLC validates that the recorded text denotes the value.',
                note=_TB + 'Bounded: 36 value shapes x 221 (quick) / 1500 (thorough) option records; random values use every numeric field 0..3, all indent units and Limit variants.'),
    'C08': dict(engine='TLC+jsv', design_ref='DESIGN.md section 6 (C08)',
                technique='CompactMinimal invariant; compact_print / Display / to_string / String::from compared byte-for-byte with the specified compact text; exhaustive run-compressed sweep of every scalar as a one-character string and key validated by TraceSweep',
                text='The compact text is specified in JsonPrinter.tla (RFC 8785 escaping); TLC checks it has no whitespace outside strings; the four compact entry points must produce it for every bounded value; every Unicode scalar is printed as a one-character string and key by the real code and the run-compressed result validated against the specification.',
                note=_TB + 'Quick tier evaluates the specification on run end points, 33 interior points and all interesting points (ASCII/Latin-1, encoding and surrogate boundaries); thorough on every element.'),
    'C11': dict(engine='TLC+jsv', design_ref='DESIGN.md section 6 (C11), 4.9',
                technique='CodeMapNav.tla gives the pre-order offsets of every item / entry / key / value and the conversion error offsets; TLC prints them for every accepted document of the parser trees and every small document x 15 type shapes; the harness compares every navigation API',
                text='For every accepted document of the structure / token / nesting trees the specification gives the offsets the mapped iterators and key lookups must yield, get_fragment results for 0..n+2, volume and counts; for every small document x type shape the offset / found kind / expected kind of the first kind mismatch. All compared with the real API, and every returned offset must designate the element source text.',
                note=_TB),
    'C13': dict(engine='TLC+jsv', design_ref='DESIGN.md section 6 (C13), 4.5',
                technique='layout specification from the option documentation evaluated by TLC; byte-for-byte comparison with the real printer for every value x option record; recorded random prints validated by TracePrinter',
                text='JsonPrinter.tla defines one-line / expanded layout from the rustdoc (limits on the characters actually printed, dedicated empty spacing); the real printer must produce exactly that text for every enumerated pair and every recorded random pair.',
                note=_TB),
    'C15': dict(engine='TLC+jsv', design_ref='DESIGN.md section 6 (C15), 4.2',
                technique='declarative UnorderedEq (bijection between entries) checked equal to MultisetEq, symmetric, implied by =; all pairs of small objects replayed; recorded shuffles / mutations validated by TraceUnordered',
                text='TLC enumerates all pairs of small objects (plain and nested) with the declarative relation; the four real entry points must agree in both argument orders; random large values with deep shuffles (must hold) and single mutations incl. multiplicity changes (must not) are validated by TLC.',
                note=_TB),
})

CLAIMS.update({
    'C09': dict(engine='TLC+jsv', design_ref='DESIGN.md section 6 (C09), 4.6',
                technique='Canonical.tla (UTF-16 member order) + Decimal/BigNat.tla: TLC certifies every number rendering with exact integer arithmetic (nearest double, shortest and closest digits, Number::toString layout); all member permutations of bounded I-JSON values replayed; recorded canonicalizations validated by TraceCanon',
                text='The number rules of RFC 8785 are decided by certificate checking inside TLC (arbitrary-precision naturals written in TLA+): the harness supplies spelling, claimed nearest double and the rendering produced by the code; TLC proves the double is the correctly rounded one and the rendering is the ECMAScript shortest round-trip form. Member order is specified on UTF-16 code units; TLC enumerates every permutation of bounded values whose keys straddle the UTF-16 / code-point divergence.',
                note=_TB + 'The claimed double comes from str::parse::<f64> but is not trusted (IsNearestDouble is part of the certificate; a wrong certificate is a tool error).'),
    'C10': dict(engine='TLC+jsv', design_ref='DESIGN.md section 6 (C10)',
                technique='idempotence, permutation invariance and strict ordering are TLC invariants of MC_Canonical; meaning-preserving rewritings (member shuffles, exact number respellings, alternative escapes, whitespace) are validated by TraceCanon (MeaningEq => identical canonical bytes), plus index consistency of the result',
                text='For every permutation of the bounded values the canonical text must equal the base document\'s; recorded pairs (document, rewriting) are proved meaning-equal by TLC with exact arithmetic and must have byte-identical output; second application must be the identity; the key index of every canonicalized object (hook) must be the index of its entries.',
                note=_TB),
    'C16': dict(engine='TLC+jsv', design_ref='DESIGN.md section 6 (C16), 4.8',
                technique='SerdeSer.tla: encoding of serde data-model terms; 5080 TLC-enumerated terms drive the real Serializer and serde_json\'s through a generic Serialize impl; instances of a derive family are recorded (term, Value, serde_json value, float certificates, round trips) and validated by TraceSerde',
                text='The serializer is specified on data-model terms (externally tagged variants, key restrictions, insert semantics, the number-token handshake). Every small term is replayed into json-syntax (must equal the specification) and serde_json (same shape). For instances of a derive-annotated family TLC validates the recorded Value against the specification applied to the term the type really emits, certifies every float spelling with exact arithmetic, compares shapes with serde_json, and the three round trips must give back the datum bit-exactly.',
                note=_TB + 'Round-trip equality d = from_value(to_value d) is evaluated by the harness with PartialEq plus Debug-string equality (bit exact for finite floats).'),
    'C17': dict(engine='TLC+jsv', design_ref='DESIGN.md section 6 (C17)',
                technique='SerValue (identity up to Insert-collapse of duplicate keys) and number preservation (same 64-bit integer, else same double by certificate) checked by TraceSerde on recorded to_value / from_value / serde_json::from_str runs; the two number classes named by the property and the number-token key are known findings by class predicate',
                text='Recorded serializations of generated Values must equal SerValue(v); recorded deserializations (from a Value, from JSON text through serde_json) must keep the structure with every 64-bit integer intact and every other number denoting the same double (certificates checked by TLC).',
                note=_TB + 'Known findings K1, K2 (named by the property) and K4 are matched by class predicates evaluated in TLC.'),
    'C18': dict(engine='TLC+jsv', design_ref='DESIGN.md section 6 (C18)',
                technique='SerdeJson.tla round-trip law checked by TLC and replayed; recorded conversions of generated serde_json / json-syntax values (all three number classes, u64::MAX, i64::MIN, -0.0, subnormals, random-bit doubles, magnitudes outside the double range) validated by TraceSerde; panics are data',
                text='ToSJ(FromSJ(s)) = s is an invariant of the bounded model and every bounded serde_json value is converted both ways by the real code; generated values in both directions are recorded and validated (equality for serde_json round trips; same integer or same double by certificate, up to member order, for json-syntax round trips; no panic).',
                note=_TB),
    'C19': dict(engine='TLC+jsv+rustc', design_ref='DESIGN.md section 6 (C19), 4.9',
                technique='JsonMacro.tla: the macro as a token muncher (one action per macro rule); TLC checks MacroValue(Tokens d) = value of Run(Text d) for every bounded decorated document and prints them; the harness emits them as Rust source, compiles against the current tree and compares with Value::parse_str',
                text='Every enumerated json! invocation (trailing commas, literal / parenthesized / expression keys, duplicate keys, suffixed integer literals at their bounds, negative and float literals, expression values, nesting) must compile and build the value that parsing the same text yields.',
                note=_TB + 'Macro expansion itself is performed by rustc.'),
})

NOT_CLAIMED = {}


# what later sessions added to each check (appended to the claim text)
ADDENDA = {
    'C01': ' Also: the control-state graph of the automaton (MC_ParserGraph: one replay vector per transition, inputs up to 35-44 characters), every scalar in 15 syntactic contexts (ctx sweeps), long inputs of multi-byte characters across the 64 KiB marks and long byte inputs with one ill-formed sequence (MC_NestBytes), decided errors extended by every token. The option constructors (Options::strict / default / flexible) are routes chosen by the specification record.',
    'C02': ' Also: the control-state graph vectors, lookups on parsed objects through every way of consuming the lookup iterators and from another thread, several strings / keys per document under the lenient options.',
    'C03': ' Also: the nesting / length families run in an optimised and an unoptimised build, the traversal is consumed every way (count, size_hint, collect, fold, last), a re-entrant input iterator, iterators announcing an enormous length, panics on the exhaustive sweeps count as violations.',
    'C05': ' Also: positions with character lengths reported in UTF-16 bytes / characters / UTF-32 bytes (translated specification outcome), byte positions after every scalar (ctx sweeps, string and slice entry points), the CodeMap container operations (clone_from, iteration).',
    'C06': ' Also: every query iterator consumed by every provided method (iter_routes), queries from another thread, recorded histories with grow-distinct / drain phases (table growth and shrinking).',
    'C07': ' Also: error offsets under other character-length transports (must be character boundaries of the input), every scalar in 15 syntactic contexts, long byte inputs. A reported surrogate span must satisfy JsonParser!SpanInside (contained in the offending escape(s) and starting at a position of it). Error texts / accessors / sources: Messages.tla (extension aspect X02).',
    'C08': ' Also: 20-character pads + every scalar through String::from / to_string, an escape at every position 0..300 of a long string, compact events of the print recorder (values with 66+ containers printed after an expanded print on the same thread, prints into failing sinks). The compact preset constructor is checked field by field against the specification record (Options::compact() = all-zero record), compact_print() = print_with(Options::compact()); Display under formatter flags.',
    'C09': ' Also: positional-notation numbers of 40-1200 digits around ties, 15-20 digit bare integers, keys sharing a high surrogate, minimal escaping of every scalar.',
    'C10': ' Also: the laws on values with repeated keys (incl. 70-member objects), canonicalize - update through the object API - canonicalize on the same instance, number certificates (keeps its double value).',
    'C11': ' Also: MC_NavValues (every value up to a shape bound printed by the printer specification), navigation in UTF-16 coordinates, every mapped iterator and the traversal consumed by every provided method. The object-side traits (TryFromJsonObject, provided method and Box impl) at the root and at every nested offset.',
    'C12': ' Also: several strings / keys per document, strings beyond the inline capacity, byte trees under the lenient options, error class (surrogate or not) under lenient options.',
    'C13': ' Also: the width attributed to every scalar (width sweeps), indentation of 31-130 columns, spacing fields up to 128, limits within a few columns of the real width, strings of 30-300 bytes, prints into failing sinks, user containers printed through the contextual layer. Values annotated with locspan::Meta / Stripped, the public two-phase interface (pre_compute_size + fmt_with_size), HashSet<T> through the contextual layer, preset constructors vs preset methods (inline never breaks a line).',
    'C14': ' Also: an observed twin (hashed / compared / cloned after every step), clone_from into permuted targets, domains of number and string spellings whose orders disagree, obs events in recorded histories.',
    'C15': ' Also: the container types own impls, operands built on another thread or brought in by clone_from, objects of 64-100 entries, a key occurring 66-80 times. locspan::Meta-annotated values and vectors of them.',
    'C16': ' Also: a large datum (300-element sequences and maps), newtype structs around sequences / tuples / options / maps, integer keys by digit count, failing deserializations before every event. Derived types with skipped fields (skip_serializing_if on struct and struct-variant fields).',
    'C17': ' Also: deserialize_in_place into existing values, zero spellings, the number-token key at any position, failing deserializations before every event. The Serialize / Deserialize impls of Object itself, IntoDeserializer for Value / Object, Box targets; sizes announced to visitors (extension aspect X03).',
    'C18': ' Also: serde_json numbers parsed from text in every spelling, numbers with 1100+ fraction digits, the recorder repeated in an unoptimised build (overflow checks).',
    'C19': ' Also: float literals incl. doubles that are exact single-precision values and zeros of both signs, key / value expressions drawing from a shared counter (evaluation in document order).',
    'C20': ' Also: nth / nth_back steps in the iterator machine, consumers (collect, rev, count, last, min, max, fold, rfold), nth / skip with 2^32 and usize::MAX, format specifications, renderings into failing sinks, and the accessor layer (JsonAccess) on every small value.',
}
