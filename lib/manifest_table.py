HOOKS = {
    'guard': 'json_syntax_verif',
    'enable': 'RUSTFLAGS --cfg json_syntax_verif, set in /verif/harness/.cargo/config.toml (the harness depends on /repo by path, so every check rebuilds the crate from the working tree with the hooks on)',
    'baseline_off_cmd': 'cd /repo && cargo test --workspace --no-fail-fast --offline',
    'source_commits': [],
    'add_only': True,
}

ENGINES = [
    {'name': 'TLC', 'path': 'spec/', 'kind_free_text': 'explicit TLA+ specification (spec/*.tla), bounded instances under spec/mc, trace specifications under spec/trace; model checked with TLC 1.8',
     'serves_properties': ['C01', 'C02', 'C03', 'C04', 'C05', 'C06', 'C07', 'C08', 'C09', 'C10', 'C11', 'C12', 'C13', 'C14', 'C15', 'C16', 'C17', 'C18', 'C19', 'C20']},
    {'name': 'jsv', 'path': 'harness/', 'kind_free_text': 'Rust conformance harness: replays TLC-generated behaviours into the real crate (spec->impl) and records behaviours of the real crate for validation by TLC (impl->spec)',
     'serves_properties': ['C01', 'C02', 'C03', 'C04', 'C05', 'C06', 'C07', 'C08', 'C09', 'C10', 'C11', 'C12', 'C13', 'C14', 'C15', 'C16', 'C17', 'C18', 'C19', 'C20']},
]

NOTES = ('Every check: bin/check <id> --tier quick|thorough. The specification (spec/*.tla) is the oracle: TLC model-checks the '
         'bounded instance of the module the property lives in, prints every reachable behaviour as a replay vector which the harness '
         'runs through the real crate comparing the full projected state, and validates behaviours recorded from the real crate against '
         'the trace specification. Exit 1 only with a VIOLATION line and a replay file; tool errors exit 2. See DESIGN.md.')

_TB = 'Trusted: TLC/SANY, the Json community module, rustc, the harness projection (values as tagged records, strings as code-point arrays) and comparators. '

CLAIMS = {
    'C01': dict(engine='TLC+jsv', design_ref='DESIGN.md section 6 (C01), 4.3',
                technique='TLA+ push-down automaton of RFC 8259 model-checked by TLC; every reachable input replayed into all parse entry points; recorded parses validated against the trace spec',
                text='JsonParser.tla is a character-level automaton written from RFC 8259. TLC enumerates every string up to a length bound over per-sublanguage alphabets (structure, literals, numbers in three follow contexts, strings, escapes, tokens, nesting), each state being one input with its verdict; the harness requires that verdict from all 13 entry points. This is exhaustive within the bounds and a transition cover of each lexical automaton; beyond the bounds, recorded parses of generated/mutated documents are validated by TLC.',
                note=_TB + 'Bounded: strings up to the per-tree length; alphabets hold one representative per character class.'),
    'C02': dict(engine='TLC+jsv', design_ref='DESIGN.md section 6 (C02)',
                technique='TLC-enumerated documents with their denoted value replayed into the parser; exhaustive escape sweeps compared with the spec in run-compressed form',
                text='The replayed outcome includes the value (order, duplicates, decoded strings, verbatim number spellings) and every key lookup on every parsed object is compared with a scan of the specified entries.',
                note=_TB),
    'C03': dict(engine='TLC+jsv', design_ref='DESIGN.md section 6 (C03)',
                technique='spec gives per input the number of characters a single-pass parser may pull; replay through a counting iterator under catch_unwind; deep-nesting families run in a small fixed stack',
                text='OneCharPerStep is an invariant of the specification; each replayed input runs through a counting iterator (pulled characters <= the specification bound) with panics caught, under all option records; nesting families with TLC-validated closed-form outcomes are parsed at depth up to 2e6 in a thread with a fixed small stack.',
                note=_TB + 'The OS stack bound is decided by execution, not by the model.'),
    'C05': dict(engine='TLC+jsv', design_ref='DESIGN.md section 6 (C05)',
                technique='code map is part of the TLC-generated outcome (CodeMapOK invariant: pre-order fragments, volumes, nesting); replayed byte-for-byte; fragment hooks validated step by step by the trace spec',
                text='The specification reserves and closes fragments per C05; CodeMapOK (entries = pre-order fragments of the value, volumes, nesting) is checked in every accepting state; the real code map must equal the specified one for every enumerated document through string and slice entry points.',
                note=_TB),
    'C07': dict(engine='TLC+jsv', design_ref='DESIGN.md section 6 (C07)',
                technique='errors are part of the TLC-generated outcome: first non-viable character offset and character; surrogate errors by offending units and region inclusion',
                text='In the specification an unexpected-character error is raised exactly when the automaton has no transition, i.e. at the first character that leaves the viable prefixes; the replay requires the same offset and character from the real parser for every rejected input of the trees.',
                note=_TB),
    'C12': dict(engine='TLC+jsv', design_ref='DESIGN.md section 6 (C12)',
                technique='the four option records run on the same TLC-enumerated inputs; ConservativeExtension invariant; every sequence of <=4 string elements in value/key position replayed under each option record',
                text='TLC enumerates all sequences of up to 4 string elements from {high escape, low escape, ordinary escape, raw character} in value and key position and unterminated, under all four option records, with the expected value or error; ConservativeExtension (strict-valid => identical outcome under every option record) is an invariant.',
                note=_TB),
}

CLAIMS.update({
    'C06': dict(engine='TLC+jsv', design_ref='DESIGN.md section 6 (C06), 4.4',
                technique='TLA+ list model + transcribed index algorithm; TLC explores every reachable abstract object state x every operation (IdxConsistent, QueriesAreScans, Apply = documented list semantics); each transition replayed with hooked index comparison; long random histories validated by TraceObject',
                text='JsonObject.tla has two layers: the documented list semantics of every public operation and the index-maintenance algorithm at implementation grain; TLC checks that the second is the index of the first in every reachable state of the bounded graph and prints every (state, operation) transition, which the harness replays from an access history comparing entries, result, the real index buckets (cfg hook) and every key query; long random histories over 40 keys are validated event by event by TraceObject.',
                note=_TB + 'Hook: Object::verif_index_dump (read-only). Bounded graph: 2-3 keys, 2 values, <= 4-5 entries; traces: 600-24000 operations.'),
    'C14': dict(engine='TLC+jsv', design_ref='DESIGN.md section 6 (C14)',
                technique='history independence from the MC_Object graph (states reached by >= 2 histories); order/equality/hash laws checked by TLC (TraceOrder) on recorded all-pairs matrices',
                text='Every abstract state of the object graph reached through different histories yields real objects that must be ==, Equal and hash-identical (clones too); the real ==/cmp/partial_cmp/hash are evaluated on all pairs of generated domains with near-copies and TLC checks structural equality, totality, antisymmetry, transitivity on all triples and hash coherence. The concrete order is not specified.',
                note=_TB),
    'C20': dict(engine='TLC+jsv', design_ref='DESIGN.md section 6 (C20), 4.7',
                technique='exhaustive TLA+ model of the 64 sets, all operand pairs, all front/back interleavings; every state replayed into the crate',
                text='The domain is finite and enumerated completely by TLC (IterSound invariant); every set, operand pair, rendering and iterator interleaving is replayed into the real KindSet.',
                note=_TB),
})

NOT_CLAIMED = {}
