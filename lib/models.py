"""Bounded instances (MC models) of the specification modules.

Each entry is turned into a generated instance module that EXTENDS the static
MC_* module under spec/mc and substitutes its CONSTANTS; `bin/gen-instances`
writes them all out for reading.  Sizes are given per tier.
"""


def cps(s):
    return [ord(c) for c in s]


def tla_seq(xs):
    return '<<' + ', '.join(str(x) for x in xs) + '>>'


def tla_set(xs):
    return '{' + ', '.join(xs) + '}'


def toks(*items):
    """token alphabet: each item a python string -> TLA+ set of sequences"""
    return tla_set([tla_seq(cps(t)) for t in items])


STRICT = '{MkOpts(FALSE, FALSE)}'
ALLOPTS = 'AllOpts'

TREE_INVS = ['Dump', 'OneCharPerStep', 'CodeMapOK', 'ErrorPointsAtInput', 'ConservativeExtension', 'Viable',
             'AcceptIffGrammar', 'ValueIsDenotation', 'ErrorsAbsorb', 'TokenAgreesWithValue']

# name -> (alphabet, prefix, suffix, optset, {tier: maxlen})
PARSER_TREES = {
    # structure: every bracket / separator / whitespace arrangement with one
    # representative scalar of each kind and one foreign character
    'struct': dict(alpha=toks('[', ']', '{', '}', ',', ':', ' ', '\n', '"k"', '0', 'null', 'x'),
                   prefix='', suffix='', opts=STRICT, maxlen={'quick': 5, 'thorough': 7}),
    # literals: transition cover of null / true / false inside an array
    'lit': dict(alpha=toks('n', 'u', 'l', 't', 'r', 'e', 'f', 'a', 's', ',', ']', ' ', 'x', '1'),
                prefix='[', suffix='', opts=STRICT, maxlen={'quick': 5, 'thorough': 6}),
    # numbers: transition cover of the RFC 8259 number automaton and its followers
    'num': dict(alpha=toks('-', '+', '0', '1', '9', '.', 'e', 'E', ',', ']', ' ', 'x', '"'),
                prefix='[', suffix='', opts=STRICT, maxlen={'quick': 6, 'thorough': 7}),
    # top-level numbers (follower context: whitespace / end of input only)
    'numtop': dict(alpha=toks('-', '0', '7', '.', 'e', '+', ' ', '\t', ',', ']', '}'),
                   prefix='', suffix='', opts=STRICT, maxlen={'quick': 6, 'thorough': 7}),
    # numbers as object values (follower context , })
    'numobj': dict(alpha=toks('-', '0', '5', '.', 'E', '-', ',', '}', ']', ' ', '"a":'),
                   prefix='{"a":', suffix='', opts=STRICT, maxlen={'quick': 5, 'thorough': 6}),
    # strings: quote, backslash, every escape letter, hex letters of both cases,
    # controls, DEL, 2/3/4-byte characters, NUL
    'str': dict(alpha=toks('"', '\\', '/', 'b', 'f', 'n', 'r', 't', 'u', '0', 'A', 'd', 'x', 'G',
                           '\x00', '\x1f', ' ', '\x7f', '\x80', '\u2028', '\U00010000', '\ufeff'),
                prefix='"', suffix='', opts=STRICT, maxlen={'quick': 4, 'thorough': 5}),
    # escapes: \uXXXX transition cover (hex digits of all classes, early termination)
    'hex': dict(alpha=toks('0', '9', 'a', 'f', 'A', 'F', 'g', 'G', '"', '\\', 'u', ' '),
                prefix='"\\u', suffix='', opts=STRICT, maxlen={'quick': 5, 'thorough': 6}),
    # surrogate escapes: all sequences of string elements, value position
    'surr': dict(alpha=toks('\\uD800', '\\uDBFF', '\\uDC00', '\\uDFFF', '\\u0041', '\\n', 'x', '\U00010000'),
                 prefix='"', suffix='"', opts=ALLOPTS, maxlen={'quick': 4, 'thorough': 5}),
    # surrogate escapes in key position
    'surrkey': dict(alpha=toks('\\uD800', '\\uDC00', '\\u0041', '\\t', 'y', '\u00e9'),
                    prefix='{"', suffix='":0}', opts=ALLOPTS, maxlen={'quick': 4, 'thorough': 5}),
    # unterminated surrogate escapes (no closing quote: errors at end of input)
    'surropen': dict(alpha=toks('\\uD800', '\\uDC00', '\\u00e9', '\\', 'u', 'D', '8', '0', '"'),
                     prefix='"', suffix='', opts=ALLOPTS, maxlen={'quick': 4, 'thorough': 5}),
    # surrogate escapes after the string has outgrown the 16-byte inline buffer (a spilled buffer may take other code paths)
    'surrpad': dict(alpha=toks('\\uD800', '\\uDC00', '\\u0041', 'x', '\U00010000', '\\n'),
                    prefix='"abcdefghijklmnopq', suffix='"', opts=ALLOPTS, maxlen={'quick': 4, 'thorough': 5}),
    # several strings and keys in one document: whatever a string leaves pending must not reach the next one
    'surrseq': dict(alpha=toks('\\uD800', '\\uDC00', 'a', '","', '":"', '\\u0041'),
                    prefix='{"', suffix='"}', opts=ALLOPTS, maxlen={'quick': 4, 'thorough': 5}),
    # several KEYS in one object, some of them equal after decoding (unpaired escapes and U+FFFD itself, raw and escaped):
    # members are kept, in order, whatever the options
    'surrkeys': dict(alpha=toks('\\uD800', '\\uDC00', '\\uFFFD', '\ufffd', 'x', '":0,"'),
                     prefix='{"', suffix='":0}', opts=ALLOPTS, maxlen={'quick': 4, 'thorough': 5}),
    # tokens with whitespace and multi-byte characters: code-map spans
    'tokens': dict(alpha=toks('[', ']', '{', '}', ',', ':', ' ', '"\u00e9"', '"\\u00e9\U0001F600"', '-1.5e3', 'true', '\r\n'),
                   prefix='', suffix='', opts=STRICT, maxlen={'quick': 6, 'thorough': 7}),
    # near-miss whitespace around a value (VT, FF, NEL, NBSP, U+2028, BOM, ZWSP): only space, tab, LF, CR are JSON whitespace
    'ws': dict(alpha=toks(' ', '\t', '\r', '\n', '\x0b', '\x0c', '\x85', '\xa0', '\u2028', '\ufeff', '\u200b', '\u3000', '1', 'null', '[', ']'),
               prefix='', suffix='', opts=STRICT, maxlen={'quick': 4, 'thorough': 5}),
    # strings whose length crosses the inline capacity of the small-string buffers (16 bytes) and other power-of-two
    # boundaries: a 13-character pad plus single characters of every encoding length, escapes, early termination
    'strpad': dict(alpha=toks('abcdefghijklm', 'a', '\u00e9', '\\n', '\U0001F600', '"', '\\u00e9', '\\'),
                   prefix='"', suffix='', opts=STRICT, maxlen={'quick': 5, 'thorough': 6}),
    # the same for keys (and what follows them)
    'keypad': dict(alpha=toks('abcdefghijklm', 'k', '\u20ac', '\\t', '"', ':', '1', '}'),
                   prefix='{"', suffix='', opts=STRICT, maxlen={'quick': 5, 'thorough': 6}),
    # and for numbers (the number buffer is a 16-byte small vector)
    'numpad': dict(alpha=toks('1234567890123', '0', '7', '.', 'e', '-', ',', ']'),
                   prefix='[', suffix='', opts=STRICT, maxlen={'quick': 5, 'thorough': 6}),
    # nested objects/arrays: entries, duplicate keys, empty containers
    'nest': dict(alpha=toks('{"a":', '{"b":', '"a":', '[', ']', '}', ',', '{}', '[]', '1', ' '),
                 prefix='', suffix='', opts=STRICT, maxlen={'quick': 6, 'thorough': 8}),
}


def parser_tree_instance(name, tier, dump=True):
    t = PARSER_TREES[name]
    consts = {
        'Alphabet': t['alpha'],
        'Prefix': tla_seq(cps(t['prefix'])),
        'Suffix': tla_seq(cps(t['suffix'])),
        'OptSet': t['opts'],
    }
    plain = {'MaxLen': t['maxlen'][tier], 'DumpOn': 'TRUE' if dump else 'FALSE'}
    return consts, plain


def btoks(*items):
    """byte-token alphabet: each item a bytes object"""
    return tla_set([tla_seq(list(t)) for t in items])


BOUNDARY_BYTES = [0x22, 0x41, 0x7f, 0x80, 0x8f, 0x90, 0x9f, 0xa0, 0xbf, 0xc0, 0xc1, 0xc2, 0xdf, 0xe0, 0xe1, 0xec, 0xed, 0xee, 0xef,
                  0xf0, 0xf1, 0xf3, 0xf4, 0xf5, 0xff]

BYTE_TREES = {
    # every string of boundary bytes inside a JSON string: Table 3-7 transition cover
    'utf8': dict(alpha=btoks(*[bytes([b]) for b in BOUNDARY_BYTES]), prefix=b'"', suffix=b'"', opts=STRICT,
                 maxlen={'quick': 3, 'thorough': 4}),
    # four-byte sequences: lead F0 / F1 / F4 / F5 with boundary continuation bytes
    'utf8x4': dict(alpha=btoks(*[bytes([b]) for b in [0x80, 0x8f, 0x90, 0xbf, 0xc0, 0x7f, 0x22]]), prefix=b'"\xf0', suffix=b'"', opts=STRICT,
                   maxlen={'quick': 4, 'thorough': 5}),
    'utf8x4b': dict(alpha=btoks(*[bytes([b]) for b in [0x80, 0x8f, 0x90, 0xbf, 0xc0, 0x7f, 0x22]]), prefix=b'"\xf4', suffix=b'"', opts=STRICT,
                    maxlen={'quick': 4, 'thorough': 5}),
    # syntax errors versus ill-formed UTF-8: which one is reported (C07), also between tokens
    'mixed': dict(alpha=btoks(b'[', b']', b'1', b' ', b',', b'"', b'\xff', b'\xc3', b'\xc3\xa9', b'\xe2\x82', b'\xc0\xac', b'\xed\xa0\x80', b'x', b'\xef\xbb\xbf', b'\xef\xbf\xbd'),
                  prefix=b'', suffix=b'', opts=STRICT, maxlen={'quick': 4, 'thorough': 6}),
    'mixedlenient': dict(alpha=btoks(b'"', b'\\uD800', b'\xff', b'\xc3\xa9', b'\xe2\x82', b'x'),
                         prefix=b'"', suffix=b'', opts=ALLOPTS, maxlen={'quick': 3, 'thorough': 4}),
}


def byte_tree_instance(name, tier):
    t = BYTE_TREES[name]
    consts = {'Alphabet': t['alpha'], 'Prefix': tla_seq(list(t['prefix'])), 'Suffix': tla_seq(list(t['suffix'])), 'OptSet': t['opts']}
    return consts, {'MaxLen': t['maxlen'][tier]}
